package c05

import (
	"bytes"
	"encoding/binary"
	"fmt"
	"math/rand"
	"strings"
	"sync"
	"testing"
	"time"

	"go.nanomsg.org/mangos/v3"

	"verifharness/hx"
	"verifharness/mon"
	"verifharness/vt"
)

// C05 — REP/RESPONDENT replies go back along the path of their request.
//
// The harness is every REQ/SURVEYOR peer (vt pipes) of one rep / respondent /
// xrep / xrespondent socket.  It injects requests `[w_1 .. w_d id | tag payload]`
// and checks every byte the socket transmits: each transmission must be the one
// and only transmission of a reply the application sent, on the connection on
// which the answered request arrived, starting with exactly that request's
// routing header.  Absence ("never delivered to another peer", "discarded if the
// connection has gone") is decided by a flush round: a last request/reply pair
// per open connection, after which that connection's (sequential) sender cannot
// still hold an earlier reply.

type c05Spec struct {
	Proto  string `json:"proto"` // rep | respondent | xrep | xrespondent
	Mode   string `json:"mode"`  // seq | conc | raw
	NCtx   int    `json:"nctx"`
	NPipes int    `json:"npipes"`
	NOps   int    `json:"nops"`
	TTL    int    `json:"ttl"`
	NDev   int    `json:"ndev,omitempty"` // devices between the requesters and the replier
	Tr     string `json:"tr,omitempty"`   // transport of each device hop, comma separated
	// send-side options of the replier (sendopt* and wire kinds; see newRigSpec)
	BE  int    `json:"be,omitempty"`  // OptionBestEffort: 0 off, 1 socket before contexts, 2 per context, 3 socket after contexts
	SDL bool   `json:"sdl,omitempty"` // OptionSendDeadline of one hour
	WQ  int    `json:"wq,omitempty"`  // OptionWriteQLen + 1 (0: default)
	PTr string `json:"ptr,omitempty"` // wire: transport of each requester's connection, comma separated
}

func TestMain(m *testing.M) { hx.Main(m) }

func TestC05(t *testing.T) {
	r := mon.NewRunner(t, "C05")
	rnd := r.Rand()
	var cases []mon.CaseSpec
	nseq, nconc, nraw := r.Pick(2000, 24000), r.Pick(1200, 18000), r.Pick(1200, 18000)
	cooked := []string{"rep", "respondent"}
	rawp := []string{"xrep", "xrespondent"}
	for i := 0; i < nseq; i++ {
		cases = append(cases, mon.CaseSpec{Name: "seq", Spec: c05Spec{Proto: cooked[i%2], Mode: "seq", NCtx: 1 + rnd.Intn(6), NPipes: 1 + rnd.Intn(6), NOps: 20 + rnd.Intn(41), TTL: pickTTL(rnd, 1)}})
	}
	for i := 0; i < nconc; i++ {
		cases = append(cases, mon.CaseSpec{Name: "conc", Spec: c05Spec{Proto: cooked[i%2], Mode: "conc", NCtx: 1 + rnd.Intn(6), NPipes: 1 + rnd.Intn(6), NOps: 20 + rnd.Intn(60), TTL: pickTTL(rnd, 1)}})
	}
	for i := 0; i < nraw; i++ {
		// TTL >= 2 so that a depth-0 sentinel is within every receiver's hop limit
		cases = append(cases, mon.CaseSpec{Name: "raw", Spec: c05Spec{Proto: rawp[i%2], Mode: "raw", NCtx: 0, NPipes: 1 + rnd.Intn(6), NOps: 2 + rnd.Intn(5), TTL: pickTTL(rnd, 2)}})
	}
	for i := 0; i < nraw/4; i++ {
		cases = append(cases, mon.CaseSpec{Name: "rawretry", Spec: c05Spec{Proto: rawp[i%2], Mode: "rawretry", TTL: pickTTL(rnd, 2)}})
	}
	for i := 0; i < nraw/6; i++ {
		cases = append(cases, mon.CaseSpec{Name: "cookedtimeout", Spec: c05Spec{Proto: cooked[i%2], Mode: "cookedtimeout", NCtx: (i / 2) % 2, TTL: pickTTL(rnd, 2)}})
	}
	// replies that have to travel back through a chain of devices (see newRigVia): the seq and conc
	// scripts with the requesters 1-3 (thorough: up to 5) devices away from the replier
	nchain := r.Pick(200, 3000)
	for i := 0; i < nchain; i++ {
		mode, nops := "seq", 12+rnd.Intn(19)
		if i%5 >= 3 {
			mode, nops = "conc", 16+rnd.Intn(25)
		}
		ndev := 1 + rnd.Intn(3)
		if r.Thorough() && rnd.Intn(4) == 0 {
			ndev = 4 + rnd.Intn(2)
		}
		cases = append(cases, mon.CaseSpec{Name: "chain" + mode, Spec: c05Spec{Proto: cooked[i%2], Mode: mode, NCtx: 1 + rnd.Intn(4), NPipes: 1 + rnd.Intn(4), NOps: nops,
			TTL: chainTTL(rnd, ndev), NDev: ndev, Tr: pickHops(rnd, ndev)}})
	}
	// a Recv that fails between receiving a request and answering it
	nrf := r.Pick(200, 3000)
	for i := 0; i < nrf; i++ {
		ndev := 0
		if rnd.Intn(5) == 0 {
			ndev = 1 + rnd.Intn(2)
		}
		cases = append(cases, mon.CaseSpec{Name: "recvfail", Spec: c05Spec{Proto: cooked[i%2], Mode: "recvfail", NCtx: 1 + rnd.Intn(4), NPipes: 1 + rnd.Intn(4), NOps: 2 + rnd.Intn(4),
			TTL: chainTTL(rnd, ndev), NDev: ndev, Tr: pickHops(rnd, ndev)}})
	}
	// the next Recv posted (by another goroutine, still parked) before the request in hand is answered
	nrp := r.Pick(200, 3000)
	for i := 0; i < nrp; i++ {
		ndev := 0
		if rnd.Intn(5) == 0 {
			ndev = 1 + rnd.Intn(2)
		}
		cases = append(cases, mon.CaseSpec{Name: "recvposted", Spec: c05Spec{Proto: cooked[i%2], Mode: "recvposted", NCtx: 1 + rnd.Intn(4), NPipes: 1 + rnd.Intn(4), NOps: 2 + rnd.Intn(4),
			TTL: chainTTL(rnd, ndev), NDev: ndev, Tr: pickHops(rnd, ndev)}})
	}
	// the seq and conc scripts with the replier's send-side options set: best effort (a reply may be
	// discarded, never altered), a send deadline, a write-queue length; a fifth behind 1-2 devices
	nso := r.Pick(300, 4500)
	for i := 0; i < nso; i++ {
		mode, nops := "seq", 16+rnd.Intn(30)
		if i%3 == 2 {
			mode, nops = "conc", 16+rnd.Intn(40)
		}
		ndev := 0
		if rnd.Intn(5) == 0 {
			ndev = 1 + rnd.Intn(2)
		}
		sp := c05Spec{Proto: cooked[i%2], Mode: mode, NCtx: 1 + rnd.Intn(4), NPipes: 1 + rnd.Intn(4), NOps: nops, TTL: chainTTL(rnd, ndev), NDev: ndev, Tr: pickHops(rnd, ndev)}
		sp.BE, sp.SDL, sp.WQ = pickSendOpts(rnd, i)
		cases = append(cases, mon.CaseSpec{Name: "sendopt" + mode, Spec: sp})
	}
	// requesters that are raw REQ / SURVEYOR sockets of the library connected over every transport
	// (directly or through devices), replies with empty / shorter-than-a-word / word-like bodies
	nwire := r.Pick(180, 2700)
	for i := 0; i < nwire; i++ {
		ndev := 0
		if rnd.Intn(3) == 0 {
			ndev = 1 + rnd.Intn(2)
		}
		np := 1 + rnd.Intn(3)
		var ptr []string
		for k := 0; k < np; k++ {
			// every transport in turn for the first requester, so that each is the replier's own
			// transport (no devices) or the outermost hop equally often
			tr := hx.Transports[(i/2+k)%len(hx.Transports)]
			if k > 0 && rnd.Intn(2) == 0 {
				tr = hx.Transports[rnd.Intn(len(hx.Transports))]
			}
			ptr = append(ptr, tr)
		}
		hops := ""
		if ndev > 0 {
			var hs []string
			for k := 0; k < ndev; k++ {
				hs = append(hs, hx.Transports[rnd.Intn(len(hx.Transports))])
			}
			hops = strings.Join(hs, ",")
		}
		sp := c05Spec{Proto: cooked[i%2], Mode: "wire", NCtx: 1 + rnd.Intn(3), NPipes: np, NOps: 3 + rnd.Intn(6), TTL: chainTTL(rnd, ndev), NDev: ndev, Tr: hops, PTr: strings.Join(ptr, ",")}
		if rnd.Intn(3) == 0 {
			sp.BE, sp.SDL, sp.WQ = pickSendOpts(rnd, i)
		}
		cases = append(cases, mon.CaseSpec{Name: "wire", Spec: sp})
	}
	r.Run(cases, func(c *mon.Case) {
		sp := c.Spec.(c05Spec)
		switch sp.Mode {
		case "wire":
			c05Wire(c, sp)
		case "recvposted":
			c05RecvPosted(c, sp)
		case "recvfail":
			c05RecvFail(c, sp)
		case "cookedtimeout":
			c05CookedTimeout(c, sp)
		case "seq":
			c05Seq(c, sp)
		case "conc":
			c05Conc(c, sp)
		case "rawretry":
			c05RawRetry(c, sp)
		default:
			c05Raw(c, sp)
		}
	})
}

// pickTTL: mostly the small hop limits around the default, and in a quarter of the cases a
// large one, so that routing headers far deeper than the default 8 words are exercised too.
// sendReply sends body on a cooked replier: with Send, or (junk != nil) with SendMsg of a message
// whose Header still holds bytes from an earlier life (a gateway answering with a message it got from
// a raw socket).  The cooked socket owns the header of what it sends: the reply must go out prefixed
// with exactly the request's routing header either way.
func sendReply(cx interface {
	Send([]byte) error
	SendMsg(*mangos.Message) error
}, body, junk []byte) error {
	if junk == nil {
		return cx.Send(body)
	}
	m := mangos.NewMessage(len(body))
	m.Body = append(m.Body, body...)
	m.Header = append(m.Header, junk...)
	err := cx.SendMsg(m)
	if err != nil {
		m.Free()
	}
	return err
}

// pickSendOpts: two in three with best effort on (set in one of the three ways), the others with only a
// send deadline and/or a write-queue length; queue lengths 0, 1, 2, 8 or the default.
func pickSendOpts(rnd *rand.Rand, i int) (be int, sdl bool, wq int) {
	if i%3 != 0 {
		be = 1 + rnd.Intn(3)
	}
	sdl = be == 0 || rnd.Intn(3) == 0
	if rnd.Intn(2) == 0 {
		wq = []int{1, 2, 3, 9}[rnd.Intn(4)]
	}
	return
}

func pickTTL(rnd *rand.Rand, min int) int {
	if rnd.Intn(4) == 0 {
		return []int{9, 10, 12, 16, 33, 100, 255}[rnd.Intn(7)]
	}
	return min + rnd.Intn(9-min)
}

// chainTTL: a hop limit that leaves room for 1-8 (sometimes many more) words of the requester's own
// routing header on top of the ndev words the devices add.
func chainTTL(rnd *rand.Rand, ndev int) int {
	t := ndev + pickTTL(rnd, 1)
	if t > 255 {
		t = 255
	}
	return t
}

// pickHops: the transport of each device hop; mostly inproc, one in four hops a real one.
func pickHops(rnd *rand.Rand, ndev int) string {
	var hops []string
	for k := 0; k < ndev; k++ {
		tr := "inproc"
		if rnd.Intn(4) == 0 {
			tr = hx.Transports[1+rnd.Intn(len(hx.Transports)-1)]
		}
		hops = append(hops, tr)
	}
	return strings.Join(hops, ",")
}

func optSig(sp c05Spec) string {
	if sp.BE == 0 && !sp.SDL && sp.WQ == 0 {
		return ""
	}
	return fmt.Sprintf("be%d,sdl%v,wq%d", sp.BE, sp.SDL, sp.WQ)
}

func errName(err error) string {
	if err == nil {
		return "nil"
	}
	return err.Error()
}

// ---- sequential scripts on cooked sockets -----------------------------------------

type seqCtx struct {
	pending     *reqSt // last received, not yet answered
	afterFailed bool   // a Recv failed since
	nfailed     int    // how many
	posted      bool   // a Recv is parked on the context right now (known parked, nothing for it to receive)
}

type seqRun struct {
	c     *mon.Case
	sp    c05Spec
	r     *rig
	st    []seqCtx
	ops   []string
	multi int // Sends performed while >= 2 contexts held requests from different connections
	deep  int // replies with a routing header of depth >= 1
	inflt int // drops between Recv and Send

	afterFail int // replies accepted after a failed Recv on the context
	gaveUp    int // respondent: Sends refused after a failed Recv on the context / with a Recv posted on it
	postedAns int // replies accepted while the context's next Recv was already posted
}

func (s *seqRun) note(f string, a ...interface{}) {
	m := fmt.Sprintf(f, a...)
	s.ops = append(s.ops, m)
	s.c.Logf("%s", m)
}

func (s *seqRun) avail() int {
	n := 0
	for _, p := range s.r.pipes {
		if p.dropped {
			continue
		}
		for _, q := range p.reqs {
			if q.recvN == 0 {
				n++
			}
		}
	}
	return n
}

func (s *seqRun) anyLive() *pipeSt {
	lp := s.r.livePipes()
	if len(lp) == 0 {
		p := s.r.addPipe()
		if p != nil {
			s.note("a%d", p.n)
		}
		return p
	}
	return lp[s.c.Rand.Intn(len(lp))]
}

func (s *seqRun) inject() *reqSt {
	p := s.anyLive()
	if p == nil {
		return nil
	}
	d := s.c.Rand.Intn(s.r.depthLimit())
	if s.c.Rand.Intn(4) == 0 {
		d = s.r.depthLimit() - 1 // the deepest header still within the hop limit
	}
	q := s.r.inject(p, d, false)
	s.note("i%d/%d", p.n, d)
	return q
}

// recv performs Recv on context i; deadline > 0 arms a receive deadline.
func (s *seqRun) recv(i int, deadline time.Duration) bool {
	c, r := s.c, s.r
	if deadline == 0 && s.avail() == 0 {
		if s.inject() == nil {
			return false
		}
	}
	if deadline > 0 {
		if err := r.ctxs[i].SetOption(mangos.OptionRecvDeadline, deadline); err != nil {
			panic(err)
		}
		// rep contexts refuse a zero deadline, so "no deadline" is restored as one hour
		defer r.ctxs[i].SetOption(mangos.OptionRecvDeadline, time.Hour)
	}
	call := mon.Go("Recv", func() (interface{}, error) { b, err := r.ctxs[i].Recv(); return b, err })
	if !c.AwaitOrViolate(r.proto+"/recv-stuck", fmt.Sprintf("ctx %d Recv with %d undelivered request(s) on open connections (deadline %v)", i, s.avail(), deadline), call.Done, mon.AwaitOpts{MaxTimer: deadline}) {
		return false
	}
	return s.recvDone(i, call, deadline)
}

// recvDone judges the result of a Recv on context i that has returned.
func (s *seqRun) recvDone(i int, call *mon.Call, deadline time.Duration) bool {
	c, r := s.c, s.r
	v, err, _ := call.Result()
	if err != nil {
		if deadline > 0 && err == mangos.ErrRecvTimeout {
			if n := s.avail(); n > 0 {
				// requests were queued on open connections well before: still not a verdict of
				// this property (C18 owns deadlines); just do not build on it
				c.Count("recv_timeout_with_requests_queued", 1)
			}
			s.note("t%d", i)
			c.Count("recv_timeouts", 1)
			if s.st[i].pending != nil {
				s.st[i].afterFailed = true
				s.st[i].nfailed++
			}
			return true
		}
		c.Violate(r.proto+"/recv-error", "ctx %d Recv returned %v", i, err)
		return false
	}
	b := v.([]byte)
	q := r.lookupReq(b)
	if q == nil {
		c.Violate(r.proto+"/delivered-unknown-request", "ctx %d Recv returned %x, which is not the body of any injected request (wrong header/body split?)", i, clip(b))
		return false
	}
	if q.recvN > 0 {
		c.Violate(r.proto+"/request-delivered-twice", "request serial %d delivered to ctx %d after ctx %d", q.serial, i, q.recvBy)
		return false
	}
	q.recvN++
	q.recvBy = i
	if !bytes.Equal(b, q.body) {
		c.Violate(r.proto+"/request-body-mismatch", "ctx %d: request serial %d (depth %d) delivered as %x, injected body %x", i, q.serial, q.depth, clip(b), clip(q.body))
		return false
	}
	c.Count("requests_received", 1)
	s.st[i] = seqCtx{pending: q}
	s.note("r%d<%d", i, q.pipe.n)
	return true
}

func (s *seqRun) drop(p *pipeSt, point string, wait bool) {
	c, r := s.c, s.r
	unrecv := 0
	for _, q := range p.reqs {
		if q.recvN == 0 {
			unrecv++
		}
	}
	r.dropPipe(p)
	c.Count("drops_"+point, 1)
	s.note("d%d", p.n)
	if (wait && unrecv == 0) || r.ndev > 0 {
		// every request of p was received, so p's receiver is (going back to) reading the
		// connection and must notice the close; continue only once the socket detached it.
		// Behind devices p's receiver always gets back to reading (the forwarder drains its queue),
		// and the wait is not optional: a reply that meets the connection while the raw front socket
		// is still detaching it makes SendMsg fail, on which mangos.Device stops forwarding (as
		// documented) — not a situation this property speaks about.
		c.AwaitOrViolate(r.proto+"/dropped-connection-not-detached", fmt.Sprintf("pipe %d detaching after peer close", p.n), func() bool { return r.detached(p.id) }, mon.AwaitOpts{})
		c.Count("drops_waited_detach", 1)
	}
}

func (s *seqRun) send(i int, dropAfter bool) bool {
	c, r := s.c, s.r
	cx := &s.st[i]
	q := cx.pending
	a := r.newAnswer(i, q, c.Rand)
	a.dropBefore = q != nil && q.pipe.dropDone
	a.afterFailed = cx.afterFailed
	a.mayDrop = r.ctxMayDrop(i)
	if q != nil {
		pipesHeld := map[int]bool{}
		for _, o := range s.st {
			if o.pending != nil {
				pipesHeld[o.pending.pipe.n] = true
			}
		}
		if len(pipesHeld) >= 2 {
			s.multi++
		}
	}
	viaMsg := c.Rand.Intn(3) == 0
	var junk []byte
	if viaMsg {
		junk = make([]byte, 4*(1+c.Rand.Intn(3)))
		c.Rand.Read(junk)
		c.Count("sends_as_message_with_leftover_header", 1)
	}
	call := mon.Go("Send", func() (interface{}, error) { return nil, sendReply(r.ctxs[i], a.body, junk) })
	if !c.AwaitOrViolate(r.proto+"/send-stuck", fmt.Sprintf("ctx %d Send (pending request %d, its connection dropped=%v)", i, reqSerial(q), a.dropBefore), call.Done, mon.AwaitOpts{}) {
		return false
	}
	_, err, _ := call.Result()
	r.mu.Lock()
	a.err, a.returned = err, true
	r.mu.Unlock()
	nfailed := cx.nfailed
	posted := cx.posted
	cx.pending, cx.afterFailed, cx.nfailed = nil, false, 0
	c.Count("sends", 1)
	if posted {
		c.Count("sends_with_next_recv_posted_on_context", 1)
	}
	switch {
	case q == nil:
		s.note("s%d!", i)
		if err != mangos.ErrProtoState {
			c.Violate(r.proto+"/send-without-request:"+errName(err), "ctx %d Send with no request pending returned %v, want ErrProtoState", i, err)
			return false
		}
		c.Count("send_protostate_observed", 1)
		return true
	case a.afterFailed && err == mangos.ErrProtoState:
		r.mu.Lock()
		a.req = nil
		r.mu.Unlock()
		s.note("s%d?", i)
		if r.kind != "respondent" {
			// a Recv that failed delivered nothing: the context's last received request is still the
			// one received before it, and the reply answers that one
			c.Violate(r.proto+"/pending-request-lost-by-failed-recv", "ctx %d received request %d (connection %d, dropped=%v), then %d Recv(s) on it failed (receive deadline), then Send returned %v: the request received last was not answered", i, q.serial, q.pipe.n, a.dropBefore, nfailed, err)
			return false
		}
		// a respondent context gives up the survey it holds as soon as it asks for the next one
		// (RecvMsg clears it on entry, whether or not another survey arrives): counted, not judged
		c.Count("respondent_send_after_failed_recv_protostate", 1)
		s.gaveUp++
		return true
	case posted && err == mangos.ErrProtoState:
		r.mu.Lock()
		a.req = nil
		r.mu.Unlock()
		s.note("s%d?", i)
		if r.kind != "respondent" {
			// a Recv that is still waiting has received nothing: the context's last received request is
			// the one in hand, and the reply answers that one
			c.Violate(r.proto+"/pending-request-lost-by-posted-recv", "ctx %d received request %d (connection %d, dropped=%v), posted its next Recv (parked, nothing queued for it), then Send returned %v: the request received last was not answered", i, q.serial, q.pipe.n, a.dropBefore, err)
			return false
		}
		// a respondent context gives up the survey it holds as soon as it asks for the next one
		c.Count("respondent_send_with_recv_posted_protostate", 1)
		s.gaveUp++
		return true
	case a.dropBefore:
		s.note("s%dx", i)
		if err != nil && err != mangos.ErrClosed {
			c.Violate(r.proto+"/send-to-gone-connection:"+errName(err), "ctx %d Send answering request %d whose connection %d is gone returned %v (want discard)", i, q.serial, q.pipe.n, err)
			return false
		}
		c.Count("replies_to_gone_connection_"+errName(err), 1)
		return true
	}
	if err != nil {
		c.Violate(r.proto+"/send-error:"+errName(err), "ctx %d Send answering request %d (connection %d open) returned %v", i, q.serial, q.pipe.n, err)
		return false
	}
	if a.afterFailed {
		c.Count("send_after_failed_recv_answered", 1)
		s.afterFail++
	}
	if posted {
		c.Count("send_with_next_recv_posted_answered", 1)
		s.postedAns++
	}
	if q.depth >= 1 {
		s.deep++
	}
	s.note("s%d>%d", i, q.pipe.n)
	if dropAfter && r.ndev == 0 {
		s.drop(q.pipe, "after_send", false)
		return true
	}
	if a.mayDrop {
		// best effort: accepted does not mean transmitted; the flush round (sent reliably) settles
		// whether it went out, and scan judges it if it did
		c.Count("sends_under_best_effort", 1)
		r.scan(q.pipe)
		return true
	}
	return c.AwaitOrViolate(r.proto+"/reply-not-transmitted", fmt.Sprintf("reply serial %d of ctx %d to request %d appearing on connection %d", a.serial, i, q.serial, q.pipe.n), func() bool { return r.answerSeen(a) }, mon.AwaitOpts{})
}

func c05Seq(c *mon.Case, sp c05Spec) {
	r := newRigSpec(c, sp)
	if c.Failed() || c.Undecided() {
		return
	}
	s := &seqRun{c: c, sp: sp, r: r, st: make([]seqCtx, sp.NCtx)}
	rnd := c.Rand
	withPending := func(want bool) int {
		var cand []int
		for i := range s.st {
			if (s.st[i].pending != nil) == want {
				cand = append(cand, i)
			}
		}
		if len(cand) == 0 {
			return rnd.Intn(sp.NCtx)
		}
		return cand[rnd.Intn(len(cand))]
	}
	for op := 0; op < sp.NOps && !c.Failed() && !c.Undecided(); op++ {
		switch x := rnd.Intn(100); {
		case x < 25:
			for k := 1 + rnd.Intn(3); k > 0; k-- {
				s.inject()
			}
		case x < 50:
			// prefer contexts without a pending request, sometimes overwrite one
			s.recv(withPending(rnd.Intn(5) == 0), 0)
		case x < 82:
			s.send(withPending(rnd.Intn(6) != 0), rnd.Intn(8) == 0)
		case x < 91:
			// drop: between Recv and Send (a pending request's connection), or before Recv
			var cand []*pipeSt
			point := "before_recv"
			if rnd.Intn(3) != 0 {
				for _, o := range s.st {
					if o.pending != nil && !o.pending.pipe.dropped {
						cand = append(cand, o.pending.pipe)
					}
				}
				point = "between_recv_and_send"
			}
			if len(cand) == 0 {
				cand = r.livePipes()
				point = "before_recv"
			}
			if len(cand) > 0 {
				p := cand[rnd.Intn(len(cand))]
				if point == "between_recv_and_send" {
					s.inflt++
				}
				s.drop(p, point, rnd.Intn(2) == 0)
			}
		case x < 95:
			if len(r.pipes) < 9 {
				if p := r.addPipe(); p != nil {
					s.note("a%d", p.n)
				}
			}
		case x < 97:
			// a context that has never received anything has no request to answer, whatever the
			// socket's other contexts hold at the moment
			cx, err := r.sock.OpenContext()
			if err != nil {
				c.Violate(sp.Proto+"/open-context-error", "OpenContext: %v", err)
				break
			}
			k := mon.Go("fresh.Send", func() (interface{}, error) { return nil, cx.Send([]byte("from-a-context-without-request")) })
			if c.AwaitOrViolate(sp.Proto+"/send-without-request-stuck", "Send on a fresh context returning", k.Done, mon.AwaitOpts{}) {
				if _, e, _ := k.Result(); e != mangos.ErrProtoState {
					pend := 0
					for i := range s.st {
						if s.st[i].pending != nil {
							pend++
						}
					}
					c.Violate(sp.Proto+"/fresh-context-send-accepted", "Send on a context that never received a request returned %v (want the protocol-state error); %d other contexts hold a pending request", e, pend)
				}
				c.Count("fresh_context_sends", 1)
			}
			cx.Close()
			s.note("F")
		default:
			s.recv(rnd.Intn(sp.NCtx), time.Duration(4+rnd.Intn(8))*time.Millisecond)
		}
	}
	if !s.flush() {
		return
	}
	r.finalCheck()
	if r.checked > 0 && (s.multi > 0 || s.deep > 0 || s.inflt > 0) && (sp.BE == 0 || r.beSeen > 0) {
		c.Nontrivial()
	}
	c.Count("sends_with_requests_from_2+_connections_pending", s.multi)
	if sp.NDev > 0 {
		c.Count("replies_verified_behind_devices", r.checked)
		c.Count(fmt.Sprintf("replies_verified_behind_%d_devices", sp.NDev), r.checked)
	}
	c.Sig("%s|seq|%d|%d|%d|%d%s|%s|%s", sp.Proto, sp.NCtx, sp.NPipes, sp.TTL, sp.NDev, sp.Tr, optSig(sp), strings.Join(s.ops, " "))
}

// flush round: one more request/reply on every open connection, after which no connection's
// (sequential) sender can still hold an earlier reply.  False when the case is already decided.
func (s *seqRun) flush() bool {
	c, r := s.c, s.r
	if !c.Failed() && !c.Undecided() {
		r.reliable()
		var fl []*reqSt
		for _, p := range r.livePipes() {
			fl = append(fl, r.inject(p, 0, true))
		}
		f := c.Rand.Intn(s.sp.NCtx)
		for guard := 0; guard < 4096; guard++ {
			left := 0
			for _, q := range fl {
				if q.wireAns == 0 {
					left++
				}
			}
			if left == 0 || c.Failed() || c.Undecided() {
				break
			}
			if !s.recv(f, 0) || !s.send(f, false) {
				break
			}
		}
	}
	if c.Failed() || c.Undecided() {
		r.scanAll()
		return false
	}
	return true
}

// ---- concurrent: one goroutine per context answering whatever it receives ----------

func c05Conc(c *mon.Case, sp c05Spec) {
	r := newRigSpec(c, sp)
	if c.Failed() || c.Undecided() {
		return
	}
	hx.SetYields(c.Rand.Int63(), &hx.YieldCfg{ProbGosched: 0.2, ProbSleep: 0.1, MaxSleep: 300 * time.Microsecond})
	defer hx.SetYields(0, nil)
	rnd := c.Rand
	seed := rnd.Int63()

	var wg sync.WaitGroup
	inRecv := make([]bool, sp.NCtx) // guarded by r.mu
	order := make([][]int, sp.NCtx) // per context: pipe numbers of the requests it received
	exitErr := make([]error, sp.NCtx)
	for i := 0; i < sp.NCtx; i++ {
		i := i
		wg.Add(1)
		go func() {
			defer wg.Done()
			lr := hx.NewRand(seed + int64(i)*7919)
			for {
				r.mu.Lock()
				inRecv[i] = true
				r.mu.Unlock()
				b, err := r.ctxs[i].Recv()
				r.mu.Lock()
				inRecv[i] = false
				r.mu.Unlock()
				if err != nil {
					exitErr[i] = err
					return
				}
				q := r.lookupReq(b)
				if q == nil {
					c.Violate(r.proto+"/delivered-unknown-request", "ctx %d Recv returned %x, which is not the body of any injected request", i, clip(b))
					continue
				}
				r.mu.Lock()
				q.recvN++
				twice, prev := q.recvN > 1, q.recvBy
				q.recvBy = i
				order[i] = append(order[i], q.pipe.n)
				dropped := q.pipe.dropDone
				r.mu.Unlock()
				if twice {
					c.Violate(r.proto+"/request-delivered-twice", "request serial %d delivered to ctx %d after ctx %d", q.serial, i, prev)
				}
				if !bytes.Equal(b, q.body) {
					c.Violate(r.proto+"/request-body-mismatch", "ctx %d: request serial %d (depth %d) delivered as %x, injected body %x", i, q.serial, q.depth, clip(b), clip(q.body))
				}
				c.Count("requests_received", 1)
				if lr.Intn(3) != 0 {
					mon.Sleep(time.Duration(lr.Intn(600)) * time.Microsecond) // think time
				}
				a := r.newAnswer(i, q, lr)
				r.mu.Lock()
				// sound only in this direction: dropped before we even decided to send
				a.dropBefore = dropped
				a.mayDrop = i < len(r.mayDrop) && r.mayDrop[i]
				r.mu.Unlock()
				var junk []byte
				if lr.Intn(3) == 0 {
					junk = make([]byte, 4*(1+lr.Intn(3)))
					lr.Read(junk)
				}
				err = sendReply(r.ctxs[i], a.body, junk)
				r.mu.Lock()
				a.err, a.returned = err, true
				r.mu.Unlock()
				c.Count("sends", 1)
				if err != nil && err != mangos.ErrClosed {
					c.Violate(r.proto+"/send-error:"+errName(err), "ctx %d Send answering request %d returned %v", i, q.serial, err)
				}
			}
		}()
	}
	stopAll := func() {
		r.sock.Close()
		for _, cx := range r.ctxs[1:] {
			cx.Close()
		}
		w := mon.Go("contexts", func() (interface{}, error) { wg.Wait(); return nil, nil })
		c.AwaitOrViolate(r.proto+"/close-did-not-release-contexts", "context goroutines returning after Close", w.Done, mon.AwaitOpts{})
	}

	// injector: the case goroutine itself
	injected, drops := 0, 0
	for op := 0; op < sp.NOps; op++ {
		lp := r.livePipes()
		switch x := rnd.Intn(100); {
		case x < 8 && len(lp) > 0 && injected > 0 && r.ndev == 0:
			// (not behind devices: a reply in flight that meets its connection while the raw front
			// socket is detaching it makes mangos.Device stop forwarding, see seqRun.drop)
			p := lp[rnd.Intn(len(lp))]
			r.dropPipe(p)
			drops++
			c.Count("drops_concurrent", 1)
		case x < 12 || len(lp) == 0:
			if len(r.pipes) < 10 {
				if r.addPipe() == nil {
					stopAll()
					return
				}
			}
		default:
			if len(lp) == 0 {
				continue
			}
			p := lp[rnd.Intn(len(lp))]
			d := rnd.Intn(r.depthLimit())
			r.inject(p, d, false)
			injected++
		}
		if rnd.Intn(3) == 0 {
			mon.Sleep(time.Duration(rnd.Intn(300)) * time.Microsecond)
		}
	}
	// quiescence (pacing only): everything on open connections consumed and answered
	quiet := func() bool {
		r.mu.Lock()
		defer r.mu.Unlock()
		for i := range inRecv {
			if !inRecv[i] {
				return false
			}
		}
		for _, p := range r.pipes {
			if p.dropped {
				continue
			}
			rw, _ := p.vp.Waiters()
			if p.vp.Pending() != 0 || rw == 0 {
				return false
			}
			for _, q := range p.reqs {
				if q.recvN == 0 {
					return false
				}
			}
		}
		return true
	}
	if !c.AwaitOrViolate(r.proto+"/requests-not-consumed", fmt.Sprintf("%d contexts looping Recv/Send consuming every request queued on open connections", sp.NCtx), quiet, mon.AwaitOpts{}) {
		stopAll()
		return
	}
	// flush round (every context is parked in Recv, so every earlier Send has returned: the flush
	// replies, and only they, are sent with best effort off)
	r.reliable()
	var fl []*reqSt
	for _, p := range r.livePipes() {
		fl = append(fl, r.inject(p, 0, true))
	}
	flushed := func() bool {
		r.scanAll()
		r.mu.Lock()
		defer r.mu.Unlock()
		for _, q := range fl {
			if q.wireAns == 0 {
				return false
			}
		}
		return true
	}
	ok := c.AwaitOrViolate(r.proto+"/reply-not-transmitted", "flush replies appearing on every open connection", flushed, mon.AwaitOpts{})
	stopAll()
	if !ok || c.Failed() || c.Undecided() {
		r.scanAll()
		return
	}
	for i, e := range exitErr {
		if e != mangos.ErrClosed {
			c.Violate(r.proto+"/recv-error", "ctx %d Recv returned %v", i, e)
		}
	}
	r.finalCheck()
	shape := ""
	used := 0
	for i := range order {
		if len(order[i]) > 0 {
			used++
		}
		shape += fmt.Sprint(order[i])
	}
	if r.checked > 1 && (used >= 2 || len(r.pipes) >= 2) && (sp.BE == 0 || r.beSeen > 0) {
		c.Nontrivial()
	}
	c.Count("contexts_that_answered", used)
	if sp.NDev > 0 {
		c.Count("replies_verified_behind_devices", r.checked)
		c.Count(fmt.Sprintf("replies_verified_behind_%d_devices", sp.NDev), r.checked)
	}
	c.Sig("%s|conc|%d|%d|%d%s|%s|%s", sp.Proto, sp.NCtx, sp.TTL, sp.NDev, sp.Tr, optSig(sp), shape)
	_ = vt.Addr
}

// ---- raw sockets: routing by the pipe-id word ---------------------------------------

type rawGot struct {
	hdr, body []byte
	pid       uint32
}

func c05Raw(c *mon.Case, sp c05Spec) {
	r := newRig(c, sp.Proto, 0, sp.NPipes, sp.TTL)
	if c.Failed() || c.Undecided() {
		return
	}
	rnd := c.Rand
	permSig := ""
	var spare *mangos.Message // a received message the application kept instead of freeing it
	defer func() {
		if spare != nil {
			spare.Free()
		}
	}()
	rawSend := func(hdr []byte, a *answerSt, what string) (error, bool) {
		var m *mangos.Message
		if spare != nil && len(hdr) >= 4 && spare.Pipe != nil && spare.Pipe.ID() != binary.BigEndian.Uint32(hdr) && rnd.Intn(2) == 0 {
			// the reply is built in a message object that arrived on ANOTHER connection (an application
			// recycling what it received): the routing header says where it goes, not the object's origin
			m, spare = spare, nil
			m.Header = m.Header[:0]
			m.Body = m.Body[:0]
			c.Count("replies_built_in_a_message_from_another_connection", 1)
		} else {
			m = mangos.NewMessage(len(a.body))
		}
		m.Header = append(m.Header, hdr...)
		m.Body = append(m.Body, a.body...)
		call := mon.Go("SendMsg", func() (interface{}, error) { return nil, r.sock.SendMsg(m) })
		if !c.AwaitOrViolate(r.proto+"/send-stuck", "raw SendMsg "+what, call.Done, mon.AwaitOpts{}) {
			return nil, false
		}
		_, err, _ := call.Result()
		if err != nil {
			m.Free() // ownership stays with the caller on error
		}
		r.mu.Lock()
		a.err, a.returned = err, true
		r.mu.Unlock()
		c.Count("sends", 1)
		return err, true
	}
	for round := 0; round < sp.NOps && !c.Failed() && !c.Undecided(); round++ {
		if len(r.livePipes()) == 0 || (len(r.pipes) < 9 && rnd.Intn(6) == 0) {
			if r.addPipe() == nil {
				return
			}
		}
		lp := r.livePipes()
		var batch []*reqSt
		for k := 1 + rnd.Intn(8); k > 0; k-- {
			p := lp[rnd.Intn(len(lp))]
			d := rnd.Intn(sp.TTL)
			if rnd.Intn(4) == 0 {
				d = sp.TTL - 1
			}
			batch = append(batch, r.inject(p, d, false))
		}
		if rnd.Intn(8) == 0 && len(lp) > 1 {
			// drop before Recv: what was queued on it may or may not be delivered
			p := lp[rnd.Intn(len(lp))]
			r.dropPipe(p)
			c.Count("drops_before_recv", 1)
			lp = r.livePipes()
		}
		sent := map[*pipeSt]*reqSt{}
		for _, p := range lp {
			sent[p] = r.inject(p, 0, true)
		}
		need := len(lp)
		var got []rawGot
		call := mon.Go("RecvMsg*", func() (interface{}, error) {
			for need > 0 {
				m, err := r.sock.RecvMsg()
				if err != nil {
					return nil, err
				}
				g := rawGot{hdr: append([]byte{}, m.Header...), body: append([]byte{}, m.Body...)}
				if m.Pipe != nil {
					g.pid = m.Pipe.ID()
				}
				if spare == nil && rnd.Intn(3) == 0 {
					spare = m
				} else {
					m.Free()
				}
				got = append(got, g)
				if q := r.lookupReq(g.body); q != nil && q.sentinel && sent[q.pipe] == q {
					need--
				}
			}
			return nil, nil
		})
		if !c.AwaitOrViolate(r.proto+"/recv-stuck", fmt.Sprintf("raw RecvMsg up to the depth-0 sentinels of %d open connections (TTL %d)", len(lp), sp.TTL), call.Done, mon.AwaitOpts{}) {
			return
		}
		if _, err, _ := call.Result(); err != nil {
			c.Violate(r.proto+"/recv-error", "raw RecvMsg returned %v", err)
			return
		}
		var answerable []*reqSt
		for _, g := range got {
			q := r.lookupReq(g.body)
			if q == nil {
				c.Violate(r.proto+"/delivered-unknown-request", "raw RecvMsg returned header %x body %x: not the body of any injected request", g.hdr, clip(g.body))
				return
			}
			if q.delivered {
				c.Violate(r.proto+"/request-delivered-twice", "request serial %d delivered twice", q.serial)
				return
			}
			q.delivered = true
			q.recvN++
			c.Count("requests_received", 1)
			want := hx.Cat(hx.Be32(q.pipe.id), q.hdr)
			r.hdrCmp += len(want)
			if !bytes.Equal(g.hdr, want) {
				c.Violate(r.proto+"/raw-request-header-mismatch", "request serial %d (pipe %d id %08x, depth %d, class %s) delivered with header %x, want pipe id ++ routing header = %x", q.serial, q.pipe.n, q.pipe.id, q.depth, q.class, g.hdr, want)
				return
			}
			if !bytes.Equal(g.body, q.body) {
				c.Violate(r.proto+"/request-body-mismatch", "request serial %d delivered with body %x, injected %x", q.serial, clip(g.body), clip(q.body))
				return
			}
			q.rawHdr = g.hdr
			if !q.sentinel {
				answerable = append(answerable, q)
			}
		}
		// requests that an open connection's sentinel overtook were discarded by the socket.
		// Whether a request within the hop limit must be delivered is C09's question, not
		// this property's: counted, never judged here.
		for _, q := range batch {
			if !q.delivered && !q.preDrop {
				if q.depth == sp.TTL-1 {
					c.Count(sp.Proto+"_requests_discarded_by_socket_depth_eq_ttl_minus_1", 1)
				} else {
					c.Count(sp.Proto+"_requests_discarded_by_socket_other_depth", 1)
				}
			}
		}
		// replies in permuted order, interleaved with replies that name no connection
		rnd.Shuffle(len(answerable), func(i, j int) { answerable[i], answerable[j] = answerable[j], answerable[i] })
		for _, q := range answerable {
			permSig += fmt.Sprintf("%d.", q.pipe.n)
			if rnd.Intn(7) == 0 {
				continue // left unanswered
			}
			if rnd.Intn(9) == 0 && !q.pipe.dropped && len(r.livePipes()) > 1 {
				// drop between Recv and Send
				r.dropPipe(q.pipe)
				c.Count("drops_between_recv_and_send", 1)
				if rnd.Intn(2) == 0 {
					c.AwaitOrViolate(r.proto+"/dropped-connection-not-detached", fmt.Sprintf("pipe %d detaching after peer close", q.pipe.n), func() bool { return r.detached(q.pipe.id) }, mon.AwaitOpts{})
					c.Count("drops_waited_detach", 1)
					if rnd.Intn(2) == 0 && len(r.pipes) < 12 {
						// an unrelated connection arrives after the requester has gone and before the
						// reply is sent: whatever id it is given, the late reply is not for it
						if r.addPipe() == nil {
							return
						}
						c.Count("connections_arriving_between_requester_loss_and_reply", 1)
					}
				}
			}
			if rnd.Intn(5) == 0 {
				// a reply whose first header word names no connection of this socket
				a := r.newAnswer(-1, nil, rnd)
				var h []byte
				switch rnd.Intn(3) {
				case 0:
					a.bogus = "unknown-pipe-id"
					id := q.pipe.id
					for known := true; known; {
						id = rnd.Uint32() & 0x7fffffff
						known = false
						for _, p := range r.pipes {
							if p.id == id {
								known = true
							}
						}
					}
					h = hx.Cat(hx.Be32(id), q.hdr)
				case 1:
					a.bogus = "header-shorter-than-pipe-id"
					h = append([]byte{}, q.rawHdr[:rnd.Intn(4)]...)
				default:
					a.bogus = "pipe-id-with-top-bit"
					h = hx.Cat(hx.Be32(q.pipe.id|0x80000000), q.hdr)
				}
				err, ok := rawSend(h, a, a.bogus)
				if !ok {
					return
				}
				c.Count("bogus_reply_"+a.bogus+"_"+errName(err), 1)
			}
			a := r.newAnswer(-1, q, rnd)
			a.dropBefore = q.pipe.dropDone
			err, ok := rawSend(q.rawHdr, a, fmt.Sprintf("reply to request %d on pipe %d (dropped=%v)", q.serial, q.pipe.n, a.dropBefore))
			if !ok {
				return
			}
			if a.dropBefore {
				if err != nil && err != mangos.ErrClosed {
					c.Violate(r.proto+"/send-to-gone-connection:"+errName(err), "raw SendMsg for request %d whose connection %d is gone returned %v", q.serial, q.pipe.n, err)
					return
				}
				c.Count("replies_to_gone_connection_"+errName(err), 1)
			} else if err != nil {
				c.Violate(r.proto+"/send-error:"+errName(err), "raw SendMsg for request %d (connection %d open) returned %v", q.serial, q.pipe.n, err)
				return
			}
			if rnd.Intn(10) == 0 && !q.pipe.dropped && len(r.livePipes()) > 1 {
				r.dropPipe(q.pipe)
				c.Count("drops_after_send", 1)
			}
		}
		// flush: answer each open connection's sentinel last and wait for it on the wire
		var fl []*answerSt
		for _, p := range r.livePipes() {
			q := sent[p]
			if q == nil || !q.delivered {
				continue
			}
			a := r.newAnswer(-1, q, rnd)
			err, ok := rawSend(q.rawHdr, a, "flush reply")
			if !ok {
				return
			}
			if err != nil {
				c.Violate(r.proto+"/send-error:"+errName(err), "raw SendMsg (flush) on open connection %d returned %v", p.n, err)
				return
			}
			fl = append(fl, a)
		}
		if !c.AwaitOrViolate(r.proto+"/reply-not-transmitted", "flush replies appearing on every open connection", func() bool {
			for _, a := range fl {
				if !r.answerSeen(a) {
					return false
				}
			}
			return true
		}, mon.AwaitOpts{}) {
			return
		}
		r.checkLost()
	}
	if c.Failed() || c.Undecided() {
		return
	}
	r.finalCheck()
	if r.checked > 1 {
		c.Nontrivial()
	}
	c.Sig("%s|raw|%d|%d|%s", sp.Proto, len(r.pipes), sp.TTL, permSig)
}
