package c05

import (
	"fmt"
	"strings"

	"verifharness/mon"
)

// c05RecvPosted: the next Recv is posted before the request in hand is answered.
//
// A replier whose receive loop runs in its own goroutine (or a worker that asks for its next request
// first and then finishes the one it has) calls Send on a socket or context on which a Recv is already
// waiting.  That Recv has received nothing yet, so the context's last received request is still the one
// in hand: the Send answers it — on that request's connection, with that request's routing header —,
// the Send after that has nothing to answer (protocol-state error), and the waiting Recv then gets the
// next request, which is answered in its turn.  A Recv waiting on ANOTHER context changes nothing.
//
// The script keeps every injected request received before it posts a Recv and waits until the harness
// has seen that call parked inside RecvMsg, so nothing can reach it before the Send; one request per
// posted Recv is injected afterwards, and every posted Recv must then return one of them.  All verdicts
// are those of the sequential script (seqRun): Send's error, the bytes on every connection, the flush.
//
// respondent: a context gives up the survey it holds when it asks for the next one, so the Send with
// a Recv posted reports the protocol-state error there; counted, not judged (the reply must then not
// be transmitted at all, which the scan checks).
func c05RecvPosted(c *mon.Case, sp c05Spec) {
	r := newRigVia(c, sp.Proto, sp.NCtx, sp.NPipes, sp.TTL, sp.NDev, sp.Tr)
	if c.Failed() || c.Undecided() {
		return
	}
	s := &seqRun{c: c, sp: sp, r: r, st: make([]seqCtx, sp.NCtx)}
	rnd := c.Rand
	other := func(i int) int {
		if sp.NCtx == 1 {
			return i
		}
		return (i + 1 + rnd.Intn(sp.NCtx-1)) % sp.NCtx
	}
	live := func() bool { return !c.Failed() && !c.Undecided() }
	shape := ""
	for round := 0; round < sp.NOps && live(); round++ {
		i := rnd.Intn(sp.NCtx)
		if j := other(i); j != i && rnd.Intn(2) == 0 && s.st[j].pending == nil {
			// another context holds a request of its own meanwhile (usually from another connection)
			if !s.recv(j, 0) {
				break
			}
		}
		if !s.recv(i, 0) {
			break
		}
		owed := s.st[i].pending
		shape += "|"

		// which contexts post their next Recv: the one that owes the answer (mostly), another one, or both
		var who []int
		switch x := rnd.Intn(8); {
		case x < 5 || sp.NCtx == 1:
			who = []int{i}
		case x < 7:
			who = []int{i, other(i)}
		default:
			who = []int{other(i)}
		}
		posted := map[int]*mon.Call{}
		early := false
		for _, w := range who {
			w := w
			k := mon.Go("Recv(posted)", func() (interface{}, error) { b, err := r.ctxs[w].Recv(); return b, err })
			if !k.ParkedIn("RecvMsg") {
				if !k.Done() {
					c.Inconclusive("ctx %d: posted Recv not observed parked", w)
					break
				}
				// every injected request had been received: whatever this is, it is judged as a Recv
				// result (unknown request, request delivered twice, error)
				c.Count("posted_recv_returned_with_nothing_queued", 1)
				s.recvDone(w, k, 0)
				early = true
				break
			}
			posted[w] = k
			s.st[w].posted = true
			c.Count("recvs_posted_and_seen_parked", 1)
			s.note("p%d", w)
			if w == i {
				shape += "p"
			} else {
				shape += "o"
			}
		}
		if !live() {
			break
		}
		if !early {
			switch rnd.Intn(8) {
			case 0:
				// another context answers what it holds (with or without a Recv posted on it)
				if j := other(i); j != i && s.st[j].pending != nil {
					s.send(j, false)
					shape += "s"
				}
			case 1:
				if len(r.pipes) < 8 {
					if p := r.addPipe(); p != nil {
						s.note("a%d", p.n)
						shape += "a"
					}
				}
			case 2:
				// the requester goes away while its answer is owed: the reply is then discarded
				if owed != nil && !owed.pipe.dropped {
					s.inflt++
					s.drop(owed.pipe, "between_recv_and_send", true)
					shape += "d"
				}
			}
			if !live() {
				break
			}
			if posted[i] != nil {
				c.Count("sends_owed_with_next_recv_posted", 1)
			}
			if !s.send(i, false) {
				break
			}
			if rnd.Intn(2) == 0 {
				// the request is answered: nothing is pending any more, Recv waiting or not
				if !s.send(i, false) {
					break
				}
				shape += "!"
			}
		}
		// one request for every Recv still waiting; each must return one of them (which one is the
		// library's choice), and what it returns is then that context's request in hand
		for range posted {
			if s.inject() == nil {
				break
			}
		}
		if !live() {
			break
		}
		for _, w := range who {
			k := posted[w]
			if k == nil {
				continue
			}
			if !c.AwaitOrViolate(r.proto+"/posted-recv-stuck", fmt.Sprintf("ctx %d Recv, posted before the reply was sent, returning with %d request(s) injected for %d waiting Recv(s)", w, len(posted), len(posted)), k.Done, mon.AwaitOpts{}) {
				break
			}
			s.st[w].posted = false
			if !s.recvDone(w, k, 0) {
				break
			}
			c.Count("posted_recvs_completed", 1)
		}
		if !live() {
			break
		}
		if rnd.Intn(2) == 0 && posted[i] != nil {
			// and the request the posted Recv brought is answered like any other
			if !s.send(i, false) {
				break
			}
			shape += "r"
		}
	}
	if !s.flush() {
		return
	}
	r.finalCheck()
	if r.checked > 0 && (s.postedAns > 0 || s.gaveUp > 0) {
		c.Nontrivial()
	}
	if sp.NDev > 0 {
		c.Count("replies_verified_behind_devices", r.checked)
	}
	c.Sig("%s|recvposted|%d|%d|%d|%s|%s", sp.Proto, sp.NCtx, sp.NDev, sp.TTL, shape, strings.Join(s.ops, " "))
}
