package c05

import (
	"strings"
	"time"

	"verifharness/mon"
)

// c05RecvFail: a Recv that fails between receiving a request and answering it.
//
// A replier that polls for further requests with a receive deadline (or several contexts sharing one
// poller) gets "timed out" from Recv while it still owes an answer.  The failed Recv delivered no
// request, so the context's last received request is the one it received before: the Send that
// follows answers it — on that request's connection, with that request's routing header — and the
// Send after that has nothing to answer (protocol-state error).  Failed Recvs on OTHER contexts,
// replies sent by other contexts in between and connections coming and going change nothing.
//
// The script keeps every injected request received before it lets a Recv fail, so that the deadline
// is the only way that Recv can end.  All verdicts are those of the sequential script (seqRun):
// Send's error, the bytes on every connection, the flush round.
//
// respondent: a context gives up the survey it holds when it asks for the next one, so the Send
// after a failed Recv reports the protocol-state error there; that is counted, not judged (the
// reply must then not be transmitted at all, which the scan checks).
func c05RecvFail(c *mon.Case, sp c05Spec) {
	r := newRigVia(c, sp.Proto, sp.NCtx, sp.NPipes, sp.TTL, sp.NDev, sp.Tr)
	if c.Failed() || c.Undecided() {
		return
	}
	s := &seqRun{c: c, sp: sp, r: r, st: make([]seqCtx, sp.NCtx)}
	rnd := c.Rand
	other := func(i int) int {
		if sp.NCtx == 1 {
			return i
		}
		return (i + 1 + rnd.Intn(sp.NCtx-1)) % sp.NCtx
	}
	live := func() bool { return !c.Failed() && !c.Undecided() }
	shape := ""
	for round := 0; round < sp.NOps && live(); round++ {
		i := rnd.Intn(sp.NCtx)
		if j := other(i); j != i && rnd.Intn(2) == 0 && s.st[j].pending == nil {
			// another context holds a request of its own meanwhile (usually from another connection)
			if !s.recv(j, 0) {
				break
			}
		}
		if !s.recv(i, 0) {
			break
		}
		owed := s.st[i].pending
		nfail := 1 + rnd.Intn(3)
		shape += "|"
		for k := 0; k < nfail && live(); k++ {
			who := i
			if rnd.Intn(4) == 0 {
				who = other(i) // a Recv failing on another context is nothing to this one
			}
			dl := time.Duration(1+rnd.Intn(4)) * time.Millisecond
			if !s.recv(who, dl) {
				break
			}
			if who == i {
				shape += "t"
			} else {
				shape += "o"
			}
			switch rnd.Intn(8) {
			case 0:
				// another context answers what it holds
				if j := other(i); j != i && s.st[j].pending != nil {
					s.send(j, false)
					shape += "s"
				}
			case 1:
				if len(r.pipes) < 8 {
					if p := r.addPipe(); p != nil {
						s.note("a%d", p.n)
						shape += "a"
					}
				}
			case 2:
				// the requester goes away while its answer is owed: the reply is then discarded
				if owed != nil && !owed.pipe.dropped && rnd.Intn(2) == 0 {
					s.inflt++
					s.drop(owed.pipe, "between_recv_and_send", true)
					shape += "d"
				}
			}
		}
		if !live() {
			break
		}
		c.Count("sends_owed_across_failed_recv", 1)
		if !s.send(i, false) {
			break
		}
		if rnd.Intn(2) == 0 {
			// the request is answered: nothing is pending any more, whatever Recvs failed before
			if !s.send(i, false) {
				break
			}
			shape += "!"
		}
	}
	if !s.flush() {
		return
	}
	r.finalCheck()
	if r.checked > 0 && (s.afterFail > 0 || s.gaveUp > 0) {
		c.Nontrivial()
	}
	if sp.NDev > 0 {
		c.Count("replies_verified_behind_devices", r.checked)
	}
	c.Sig("%s|recvfail|%d|%d|%d|%s|%s", sp.Proto, sp.NCtx, sp.NDev, sp.TTL, shape, strings.Join(s.ops, " "))
}
