package props

import (
	"bytes"
	"encoding/binary"
	"fmt"
	"sync"
	"time"

	"go.nanomsg.org/mangos/v3"

	"verifharness/mon"
	"verifharness/vt"
)

// ctxLike is the part of Socket/Context the REQ/SURVEYOR workloads use.
type ctxLike interface {
	Send([]byte) error
	Recv() ([]byte, error)
	SetOption(string, interface{}) error
	GetOption(string) (interface{}, error)
	Close() error
}

// wireTx is one request transmission observed on a vt pipe.
type wireTx struct {
	Ctx, K int
	ID     uint32
	Pipe   *vt.Pipe
	PipeN  int
	T      time.Duration
	Wire   []byte
}

// reqRig is a REQ (or SURVEYOR) socket whose peers are all vt pipes held by the harness.
type reqRig struct {
	c      *mon.Case
	proto  string
	sock   mangos.Socket
	L      *vt.ListenerCtl
	watch  *pipeWatch
	mu     sync.Mutex
	pipes  []*vt.Pipe
	cursor map[*vt.Pipe]int
	ctxs   []ctxLike
	txs    []wireTx          // every transmission in observation order
	byID   map[uint32][2]int // id -> (ctx,k)
	nonce  string
	bad    []string // malformed transmissions
}

func newReqRig(c *mon.Case, proto string, nctx, npipes int) *reqRig {
	r := &reqRig{c: c, proto: proto, cursor: map[*vt.Pipe]int{}, byID: map[uint32][2]int{}, nonce: uniq("n")}
	r.sock = mustSock(c, proto)
	r.watch = watchPipes(r.sock)
	name := uniq("req")
	r.L = vt.L(name)
	c.Cleanup(func() { vt.Forget(name) })
	if err := r.sock.Listen(vt.Addr(name)); err != nil {
		panic(err)
	}
	r.ctxs = append(r.ctxs, r.sock)
	for i := 1; i < nctx; i++ {
		cx, err := r.sock.OpenContext()
		if err != nil {
			panic(err)
		}
		r.ctxs = append(r.ctxs, cx)
	}
	for i := 0; i < npipes; i++ {
		r.addPipe()
	}
	return r
}

// addPipe connects one more vt peer and waits until the socket attached it.
func (r *reqRig) addPipe() *vt.Pipe {
	n := r.watch.Attached()
	p := r.L.Connect()
	waitAttached(r.c, r.watch, n+1, "vt pipe")
	r.mu.Lock()
	r.pipes = append(r.pipes, p)
	r.mu.Unlock()
	return p
}

func (r *reqRig) setAll(opt string, v interface{}) {
	for _, cx := range r.ctxs {
		if err := cx.SetOption(opt, v); err != nil {
			panic(fmt.Sprintf("SetOption(%s,%v): %v", opt, v, err))
		}
	}
}

// reqBody builds the tagged request body for (ctx,k).
func (r *reqRig) reqBody(ctx, k int) []byte {
	return []byte(fmt.Sprintf("Q|%d|%d|%s|", ctx, k, r.nonce))
}

func (r *reqRig) parseBody(b []byte) (ctx, k int, ok bool) {
	var nonce string
	parts := bytes.Split(b, []byte("|"))
	if len(parts) < 4 || string(parts[0]) != "Q" {
		return 0, 0, false
	}
	if _, err := fmt.Sscanf(string(parts[1])+" "+string(parts[2]), "%d %d", &ctx, &k); err != nil {
		return 0, 0, false
	}
	nonce = string(parts[3])
	return ctx, k, nonce == r.nonce
}

// scan pulls new transmissions from all pipes' send logs.
func (r *reqRig) scan() []wireTx {
	r.mu.Lock()
	defer r.mu.Unlock()
	var fresh []wireTx
	for i, p := range r.pipes {
		for _, s := range p.SentFrom(r.cursor[p]) {
			r.cursor[p] = s.Seq + 1
			w := s.Wire()
			if len(w) < 4 {
				r.bad = append(r.bad, fmt.Sprintf("pipe %d: transmission shorter than a request id: %x", i, w))
				continue
			}
			id := binary.BigEndian.Uint32(w)
			ctx, k, ok := r.parseBody(w[4:])
			if !ok || id&0x80000000 == 0 {
				r.bad = append(r.bad, fmt.Sprintf("pipe %d: malformed transmission id=%08x body=%q", i, id, w[4:]))
				continue
			}
			tx := wireTx{Ctx: ctx, K: k, ID: id, Pipe: p, PipeN: i, T: s.T, Wire: w}
			r.txs = append(r.txs, tx)
			r.byID[id] = [2]int{ctx, k}
			fresh = append(fresh, tx)
		}
	}
	return fresh
}

// txsOf returns all transmissions seen so far for (ctx,k).
func (r *reqRig) txsOf(ctx, k int) []wireTx {
	r.scan()
	r.mu.Lock()
	defer r.mu.Unlock()
	var out []wireTx
	for _, t := range r.txs {
		if t.Ctx == ctx && t.K == k {
			out = append(out, t)
		}
	}
	return out
}

// awaitTx waits until at least n transmissions of (ctx,k) are on the wire.
func (r *reqRig) awaitTx(ctx, k, n int, maxTimer time.Duration, sig string) ([]wireTx, bool) {
	var got []wireTx
	ok := r.c.AwaitOrViolate(sig, fmt.Sprintf("transmission #%d of request ctx=%d k=%d", n, ctx, k), func() bool {
		got = r.txsOf(ctx, k)
		return len(got) >= n
	}, mon.AwaitOpts{MaxTimer: maxTimer})
	return got, ok
}

// drained waits until the library took everything injected on p and its receiver is parked again.
func (r *reqRig) drained(ps ...*vt.Pipe) bool {
	return r.c.AwaitOrViolate("harness:drain-stuck", "pipe receivers draining injected messages", func() bool {
		for _, p := range ps {
			if cl, _, _ := p.Closed(); cl {
				continue
			}
			rw, _ := p.Waiters()
			if p.Pending() != 0 || rw == 0 {
				return false
			}
		}
		return true
	}, mon.AwaitOpts{})
}

func (r *reqRig) livePipes() []*vt.Pipe {
	r.mu.Lock()
	defer r.mu.Unlock()
	var out []*vt.Pipe
	for _, p := range r.pipes {
		if cl, _, _ := p.Closed(); !cl {
			out = append(out, p)
		}
	}
	return out
}

// replyBody builds a reply wire body: id followed by a serial tag.
func replyWire(id uint32, serial int) []byte {
	return cat(be32(id), []byte(fmt.Sprintf("R|%d|", serial)))
}

func parseReplySerial(b []byte) (int, bool) {
	var s int
	if !bytes.HasPrefix(b, []byte("R|")) {
		return 0, false
	}
	if _, err := fmt.Sscanf(string(b[2:]), "%d|", &s); err != nil {
		return 0, false
	}
	return s, true
}
