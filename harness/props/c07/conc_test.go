package c07

import (
	"fmt"
	"sync"
	"sync/atomic"
	"time"

	"go.nanomsg.org/mangos/v3"

	"verifharness/hx"
	"verifharness/mon"
	"verifharness/vt"
)

// Concurrent histories: per context one goroutine issuing surveys and one looping
// Recv; a responder goroutine (blocking on vt activity) answers what it sees on the
// wire — on the same or another connection, duplicated, and with ids of earlier
// surveys.  Survey time is one hour, so nothing expires.
//
// Oracle (sound for every schedule): a delivered response must have been injected,
// be delivered once, carry an id of a survey of the receiving context, and that
// survey must not have been abandoned throughout: if the Send of the next survey of
// the context had returned before the Recv was invoked, or before the response was
// injected, the survey was no longer current at any instant at which the response
// could have been delivered.

type concDelivery struct {
	serial    int
	call, ret time.Duration
}

type concInj struct {
	id uint32
	t  time.Duration // taken before Inject
}

func c07Conc(c *mon.Case, sp c07Spec) {
	rig := hx.NewReqRig(c, "surveyor", sp.NCtx, sp.NPipes)
	if c.Failed() || c.Undecided() {
		return
	}
	rig.SetAll(mangos.OptionSurveyTime, time.Hour)
	rig.SetAll(mangos.OptionRecvDeadline, 30*time.Millisecond)
	hx.SetYields(c.Rand.Int63(), &hx.YieldCfg{ProbGosched: 0.2, ProbSleep: 0.1, MaxSleep: 300 * time.Microsecond})
	defer hx.SetYields(0, nil)

	var mu sync.Mutex
	injBy := map[int]concInj{}
	serial := 0
	sendCall := make([][]time.Duration, sp.NCtx) // [ctx][k]
	sendRet := make([][]time.Duration, sp.NCtx)
	deliv := make([][]concDelivery, sp.NCtx)
	errs := make([]map[string]int, sp.NCtx)
	for i := range sendRet {
		sendCall[i] = make([]time.Duration, sp.NOps+2)
		sendRet[i] = make([]time.Duration, sp.NOps+2)
		errs[i] = map[string]int{}
	}
	var stop atomic.Bool
	var helpers sync.WaitGroup
	seed := c.Rand.Int63()

	injectResp := func(p int, id uint32, class string) {
		mu.Lock()
		serial++
		sn := serial
		injBy[sn] = concInj{id: id, t: mon.Now()}
		mu.Unlock()
		rig.Pipes[p].Inject(hx.ReplyWire(id, sn))
		c.Count("injected_"+class, 1)
	}

	helpers.Add(1)
	go func() {
		defer helpers.Done()
		rnd := hx.NewRand(seed)
		var seen []hx.WireTx
		for {
			ver := vt.Activity()
			fresh := rig.Scan()
			for _, tx := range fresh {
				seen = append(seen, tx)
				n := 1
				switch rnd.Intn(6) {
				case 0:
					n = 0
				case 1:
					n = 2
				}
				for j := 0; j < n; j++ {
					p := tx.PipeN
					if rnd.Intn(3) == 0 {
						p = rnd.Intn(sp.NPipes)
					}
					if rnd.Intn(3) == 0 {
						mon.Sleep(time.Duration(rnd.Intn(400)) * time.Microsecond)
					}
					injectResp(p, tx.ID, "current-at-injection")
				}
				if rnd.Intn(2) == 0 && len(seen) > 1 {
					old := seen[rnd.Intn(len(seen)-1)]
					injectResp(rnd.Intn(sp.NPipes), old.ID, "earlier-survey")
				}
			}
			if stop.Load() {
				return
			}
			vt.WaitActivity(ver)
		}
	}()

	errName := func(err error) string {
		switch err {
		case mangos.ErrRecvTimeout:
			return "timeout"
		case mangos.ErrCanceled:
			return "canceled"
		case mangos.ErrProtoState:
			return "state"
		case mangos.ErrClosed:
			return "closed"
		}
		return "other:" + err.Error()
	}
	var senders sync.WaitGroup
	var recvStop atomic.Bool
	for i := 0; i < sp.NCtx; i++ {
		i := i
		first := make(chan struct{})
		senders.Add(1)
		go func() {
			defer senders.Done()
			rnd := hx.NewRand(seed + int64(i)*31)
			for k := 1; k <= sp.NOps; k++ {
				t0 := mon.Now()
				err := rig.Ctxs[i].Send(rig.ReqBody(i, k))
				t1 := mon.Now()
				mu.Lock()
				sendCall[i][k], sendRet[i][k] = t0, t1
				mu.Unlock()
				if err != nil {
					c.Violate("surveyor/send-error", "ctx %d Send returned %v", i, err)
				}
				if k == 1 {
					close(first)
				}
				mon.Sleep(time.Duration(rnd.Intn(1500)) * time.Microsecond)
			}
		}()
		helpers.Add(1)
		go func() {
			defer helpers.Done()
			<-first // a survey is in progress from here on (and never expires)
			for !recvStop.Load() {
				t0 := mon.Now()
				b, err := rig.Ctxs[i].Recv()
				t1 := mon.Now()
				mu.Lock()
				if err == nil {
					sn, ok := hx.ParseReplySerial(b)
					if !ok {
						sn = -1
					}
					deliv[i] = append(deliv[i], concDelivery{serial: sn, call: t0, ret: t1})
				} else {
					errs[i][errName(err)]++
				}
				mu.Unlock()
			}
		}()
	}
	sd := mon.Go("senders", func() (interface{}, error) { senders.Wait(); return nil, nil })
	okS := c.AwaitOrViolate("surveyor/concurrent-send-stuck", "concurrent senders finishing", sd.Done, mon.AwaitOpts{MaxTimer: 30 * time.Millisecond})
	if okS {
		mon.Sleep(40 * time.Millisecond) // pacing: let the last answers be consumed
	}
	recvStop.Store(true)
	stop.Store(true)
	vt.Kick()
	wd := mon.Go("helpers", func() (interface{}, error) { helpers.Wait(); return nil, nil })
	if !c.AwaitOrViolate("surveyor/concurrent-recv-stuck", "receivers with 30ms deadline returning", wd.Done, mon.AwaitOpts{MaxTimer: 30 * time.Millisecond}) || !okS {
		return
	}
	// every survey of every context was broadcast: one more survey, sent alone, is the sentinel
	// behind which (per-connection FIFO) everything queued before is on the wire.  At most 3*14
	// surveys per connection: there was queue space (128) for each of them.
	hx.SetYields(0, nil)
	if err := rig.Ctxs[0].Send(rig.ReqBody(0, sp.NOps+1)); err != nil {
		c.Violate("surveyor/send-error", "ctx 0 Send of the final survey returned %v", err)
		return
	}
	if !c.AwaitOrViolate("surveyor/survey-not-broadcast", "the final survey (sent alone) appearing on every connection", func() bool {
		return len(rig.TxsOf(0, sp.NOps+1)) >= sp.NPipes
	}, mon.AwaitOpts{}) {
		return
	}
	rig.Scan()
	for _, b := range rig.Bad {
		c.Violate("surveyor/malformed-transmission", "%s", b)
	}
	perConn := map[[3]int]int{}
	for _, t := range rig.Txs {
		perConn[[3]int{t.Ctx, t.K, t.PipeN}]++
	}
	for i := 0; i < sp.NCtx; i++ {
		for k := 1; k <= sp.NOps; k++ {
			for n := 0; n < sp.NPipes; n++ {
				switch cnt := perConn[[3]int{i, k, n}]; {
				case cnt == 0:
					c.Violate("surveyor/survey-not-broadcast:concurrent-sends", "survey ctx=%d k=%d never reached pipe %d, which was connected throughout and has the later, final survey on its wire (%d contexts sending concurrently)", i, k, n, sp.NCtx)
					return
				case cnt > 1:
					c.Violate("surveyor/survey-sent-twice-on-one-connection:concurrent-sends", "survey ctx=%d k=%d was transmitted %d times on pipe %d (%d contexts sending concurrently)", i, k, cnt, n, sp.NCtx)
					return
				}
				c.Count("concurrent_broadcast_pairs_checked", 1)
			}
		}
	}
	seenSerial := map[int]int{}
	overl, ndel := 0, 0
	shape := ""
	for i := 0; i < sp.NCtx; i++ {
		for name, n := range errs[i] {
			c.Count("recv_"+name, n)
			if name == "state" || name == "closed" || len(name) > 5 && name[:5] == "other" {
				c.Violate("surveyor/concurrent-recv-error:"+name, "ctx %d: Recv returned %q %d time(s) although a survey was in progress throughout (survey time one hour)", i, name, n)
			}
		}
		for _, d := range deliv[i] {
			ndel++
			ij, ok := injBy[d.serial]
			if !ok {
				c.Violate("surveyor/delivered-uninjected", "ctx %d Recv returned a response (serial %d) the harness never injected", i, d.serial)
				continue
			}
			if prev, dup := seenSerial[d.serial]; dup {
				c.Violate("surveyor/delivered-twice", "response serial %d delivered to ctx %d and again to ctx %d", d.serial, prev, i)
				continue
			}
			seenSerial[d.serial] = i
			o, known := rig.ByID[ij.id]
			if !known {
				c.Violate("surveyor/delivered-uninjected", "ctx %d got serial %d with id %08x that no survey carried", i, d.serial, ij.id)
				continue
			}
			if o[0] != i {
				c.Violate("surveyor/delivered-to-other-context", "ctx %d Recv returned response serial %d to survey (ctx,k)=%v", i, d.serial, o)
				continue
			}
			k := o[1]
			shape += fmt.Sprintf("%d.", k)
			if k+1 <= sp.NOps && sendRet[i][k+1] != 0 {
				late := d.call
				if ij.t > late {
					late = ij.t
				}
				if sendRet[i][k+1] < d.call {
					c.Violate("surveyor/delivered-abandoned-survey:recv-invoked-after-new-send", "ctx %d: response serial %d answers survey k=%d, but Send of survey k=%d had returned at %v, before this Recv was invoked at %v", i, d.serial, k, k+1, sendRet[i][k+1], d.call)
				} else if sendRet[i][k+1] < late {
					c.Violate("surveyor/delivered-abandoned-survey:recv-in-progress-response-arrived-after-new-send", "ctx %d: response serial %d answers survey k=%d, but Send of survey k=%d had returned at %v, before the Recv was invoked (%v) / the response was injected (%v); Recv returned it at %v", i, d.serial, k, k+1, sendRet[i][k+1], d.call, ij.t, d.ret)
				}
			}
			// Send/Recv overlap: the Recv interval contains the start of a later survey
			for kk := k + 1; kk <= sp.NOps; kk++ {
				if sendCall[i][kk] != 0 && sendCall[i][kk] < d.ret && sendRet[i][kk] > d.call {
					overl++
				}
			}
		}
		shape += "|"
	}
	c.Count("responses_delivered", ndel)
	c.Count("deliveries_overlapping_a_later_send", overl)
	if ndel > 0 {
		c.Nontrivial()
	}
	c.Sig("conc|%d|%d|%s", sp.NCtx, sp.NPipes, shape)
}
