//go:build verif

package c07

import (
	"bytes"
	"encoding/binary"
	"fmt"

	"go.nanomsg.org/mangos/v3"

	"verifharness/hx"
	"verifharness/mon"
	"verifharness/vt"
)

// c07RawMsg: "every connected respondent is sent each survey" on the raw SURVEYOR socket, whatever
// Message object the application hands to SendMsg.  A raw application works with Messages: it
// builds the next survey in a fresh one, or in one it got from RecvMsg as an answer to an earlier
// survey (new 4-byte header put in place of the old, written over it, or the message — header
// included — sent on as it is; the message itself or a Dup of it).  Such a message still names
// the connection it arrived on (Message.Pipe).  None of that is part of the survey: each of the
// 2..5 connected respondents, the one the message once came from included, is sent header+body
// exactly once (default write queue of 128, surveys paced on receipt: space permitting holds).
//
// Tr == "": the harness is every respondent (vt pipes), reads the wire and injects one answer per
// respondent, which RecvMsg must return (they become the pool the next surveys are built in).
// Tr != "": real respondent sockets over a real transport; each must receive the body, and answers.
func c07RawMsg(c *mon.Case, sp c07Spec) {
	s := hx.MustSock(c, "xsurveyor")
	nonce := hx.Uniq("m")
	np := sp.NPipes
	var peers []*vt.Pipe
	var resps []mangos.Socket
	if sp.Tr == "" {
		name := hx.Uniq("c07m")
		L := vt.L(name)
		c.Cleanup(func() { vt.Forget(name) })
		if err := s.Listen(vt.Addr(name)); err != nil {
			c.Inconclusive("setup: %v", err)
			return
		}
		w := hx.WatchPipes(s)
		for i := 0; i < np; i++ {
			peers = append(peers, L.Connect())
		}
		if !hx.WaitAttached(c, w, np, "respondents") {
			return
		}
	} else {
		w := hx.WatchPipes(s)
		var l mangos.Listener
		for i := 0; i < np; i++ {
			r := hx.MustSock(c, "respondent")
			if l == nil {
				var err error
				if l, _, err = hx.Connect(s, r, sp.Tr); err != nil {
					c.Inconclusive("connect over %s: %v", sp.Tr, err)
					return
				}
			} else {
				var do map[string]interface{}
				if hx.NeedsTLS(sp.Tr) {
					_, cl := hx.TLSConfigs()
					do = map[string]interface{}{mangos.OptionTLSConfig: cl}
				}
				if err := r.DialOptions(l.Address(), do); err != nil {
					c.Inconclusive("dial %s: %v", l.Address(), err)
					return
				}
			}
			resps = append(resps, r)
		}
		if !hx.WaitAttached(c, w, np, "respondents") {
			return
		}
	}

	type pooled struct {
		m    *mangos.Message
		from int // respondent it came from (-1: not known)
	}
	var pool []*pooled
	rnd := c.Rand
	arr := ""
	reused := 0
	sent := 0 // surveys sent so far (= transmissions each vt peer carries)
	for round := 0; round < sp.NOps && !c.Failed() && !c.Undecided(); round++ {
		id := 0x80000000 | uint32(rnd.Intn(1<<20))<<8 | uint32(round+1)
		body := []byte(fmt.Sprintf("Q|%d|%s|", round, nonce))
		var m *mangos.Message
		origin, from := "fresh", -1
		x := rnd.Intn(10)
		if round == 0 || len(pool) == 0 {
			x = 9
		}
		if x < 8 {
			n := rnd.Intn(len(pool))
			pm := pool[n]
			from = pm.from
			if x < 2 {
				m = pm.m.Dup() // the application keeps the original
				origin = "answer-dup"
			} else {
				m = pm.m
				pool = append(pool[:n:n], pool[n+1:]...)
				origin = "answer"
			}
			switch x % 4 {
			case 0, 1:
				// a fresh header, the body rewritten in the message's buffer
				m.Header = make([]byte, 4)
				binary.BigEndian.PutUint32(m.Header, id)
				m.Body = append(m.Body[:0], body...)
				origin += "-newheader"
			case 2:
				// the id written over the one RecvMsg left in the header
				if len(m.Header) != 4 {
					m.Header = make([]byte, 4)
				}
				binary.BigEndian.PutUint32(m.Header, id)
				m.Body = append(m.Body[:0], body...)
				origin += "-overwritten"
			default:
				// sent on as it is: the id of the survey it answered, and the answer as the body
				if len(m.Header) != 4 || m.Header[0]&0x80 == 0 {
					m.Header = make([]byte, 4)
					binary.BigEndian.PutUint32(m.Header, id)
				}
				id = binary.BigEndian.Uint32(m.Header)
				body = append([]byte{}, m.Body...)
				origin += "-as-it-is"
			}
		} else {
			m = mangos.NewMessage(32)
			m.Header = append(m.Header, hx.Be32(id)...)
			m.Body = append(m.Body, body...)
		}
		wantWire := hx.Cat(hx.Be32(id), body)
		sk := mon.Go("SendMsg", func() (interface{}, error) { return nil, s.SendMsg(m) })
		if !c.AwaitOrViolate("surveyor/send-stuck", "raw survey SendMsg (never blocks)", sk.Done, mon.AwaitOpts{}) {
			return
		}
		if _, err, _ := sk.Result(); err != nil {
			c.Violate("surveyor/send-error", "raw survey SendMsg returned %v (message: %s)", err, origin)
			return
		}
		sent++
		what := fmt.Sprintf("raw survey %d (id %08x) sent in a Message that is %s", round, id, origin)
		if from >= 0 {
			what += fmt.Sprintf(", Message.Pipe naming respondent %d", from)
		}
		// every connected respondent is sent the survey
		for pn := 0; pn < np; pn++ {
			tag := ""
			if origin != "fresh" {
				tag = ":msg=" + origin
			}
			if sp.Tr == "" {
				p := peers[pn]
				if !c.AwaitOrViolate("surveyor/survey-not-broadcast"+tag, fmt.Sprintf("%s appearing on respondent connection %d of %d", what, pn, np), func() bool { return p.SentCount() >= sent }, mon.AwaitOpts{}) {
					return
				}
				if wire := p.SentLog()[sent-1].Wire(); !bytes.Equal(wire, wantWire) {
					c.Violate("surveyor/survey-body-altered"+tag, "%s went out to respondent %d as %x, want %x", what, pn, wire, wantWire)
					return
				}
			} else {
				r := resps[pn]
				rc := mon.Go("Recv", func() (interface{}, error) { b, err := r.Recv(); return b, err })
				if !c.AwaitOrViolate("surveyor/survey-not-received-by-respondent"+tag, fmt.Sprintf("respondent %d of %d (%s) receiving %s", pn, np, sp.Tr, what), rc.Done, mon.AwaitOpts{}) {
					return
				}
				v, err, _ := rc.Result()
				if err != nil {
					c.Inconclusive("respondent Recv: %v", err)
					return
				}
				if !bytes.Equal(v.([]byte), body) {
					c.Violate("surveyor/survey-body-altered"+tag, "%s: respondent %d received %q, want %q", what, pn, v, body)
					return
				}
			}
			c.Count("survey_transmissions_checked", 1)
		}
		c.Count("surveys_sent", 1)
		c.Count("raw_surveys_msg_"+origin, 1)
		if from >= 0 {
			reused++
			c.Count("raw_surveys_in_message_naming_a_connected_pipe", 1)
		}
		// one answer per respondent; RecvMsg returns each once
		want := map[string]int{}
		for pn := 0; pn < np; pn++ {
			ans := []byte(fmt.Sprintf("A|%d|%d|%s|", round, pn, nonce))
			want[string(ans)] = pn
			if sp.Tr == "" {
				peers[pn].Inject(hx.Cat(hx.Be32(id), ans))
			} else if err := resps[pn].Send(ans); err != nil {
				c.Inconclusive("respondent Send: %v", err)
				return
			}
		}
		for n := 0; n < np; n++ {
			rk := mon.Go("RecvMsg", func() (interface{}, error) { m, err := s.RecvMsg(); return m, err })
			if !c.AwaitOrViolate("surveyor/recv-stuck", fmt.Sprintf("xsurveyor RecvMsg of answer %d of %d to raw survey %08x", n+1, np, id), rk.Done, mon.AwaitOpts{}) {
				return
			}
			v, err, _ := rk.Result()
			if err != nil {
				c.Violate("surveyor/recv-error:"+err.Error(), "xsurveyor RecvMsg returned %v with %d answers outstanding", err, np-n)
				return
			}
			rm := v.(*mangos.Message)
			pn, ok := want[string(rm.Body)]
			if !ok || len(rm.Header) != 4 || binary.BigEndian.Uint32(rm.Header) != id {
				c.Violate("surveyor/delivered-uninjected", "xsurveyor RecvMsg returned Header=%x Body=%q: not an outstanding answer to survey %08x", rm.Header, rm.Body, id)
				return
			}
			delete(want, string(rm.Body))
			c.Count("responses_delivered", 1)
			pool = append(pool, &pooled{m: rm, from: pn})
		}
		for len(pool) > 6 {
			pool[0].m.Free()
			pool = pool[1:]
		}
		arr += origin[:1] + origin[len(origin)-1:]
	}
	if c.Failed() || c.Undecided() {
		return
	}
	for _, pm := range pool {
		pm.m.Free()
	}
	if reused > 0 {
		c.Nontrivial()
	}
	c.Sig("rawmsg|%s|%d|%s", sp.Tr, np, arr)
}
