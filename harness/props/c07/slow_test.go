package c07

import (
	"bytes"
	"encoding/binary"
	"fmt"
	"time"

	"go.nanomsg.org/mangos/v3"

	"verifharness/hx"
	"verifharness/mon"
	"verifharness/vt"
)

// c07Slow: one respondent is slow (its transport does not complete sends) while several surveys
// are started one after the other, so that surveys sit queued for it.  When it drains, whatever it
// is sent must be surveys exactly as its fast neighbour got them — same id, same body — in order;
// and its late answer to an abandoned survey must not be delivered as an answer to the current one.
func c07Slow(c *mon.Case, sp c07Spec) {
	s := hx.MustSock(c, "surveyor")
	s.SetOption(mangos.OptionSurveyTime, time.Hour)
	name := hx.Uniq("c07s")
	L := vt.L(name)
	c.Cleanup(func() { vt.Forget(name) })
	if err := s.Listen(vt.Addr(name)); err != nil {
		c.Inconclusive("setup: %v", err)
		return
	}
	w := hx.WatchPipes(s)
	fast, slow := L.Connect(), L.Connect()
	if !hx.WaitAttached(c, w, 2, "respondents") {
		return
	}
	var cx interface {
		Send([]byte) error
		Recv() ([]byte, error)
	} = s
	if sp.NCtx > 1 {
		x, err := s.OpenContext()
		if err != nil {
			c.Violate("surveyor/open-context-error", "%v", err)
			return
		}
		x.SetOption(mangos.OptionSurveyTime, time.Hour)
		cx = x
	}
	slow.HoldSends()
	n := 3 + sp.NOps%5
	type sv struct {
		id   uint32
		body []byte
	}
	var ref []sv
	for k := 1; k <= n; k++ {
		body := []byte(fmt.Sprintf("survey|%s|%d|", name, k))
		before := fast.SentCount()
		sk := mon.Go("Send", func() (interface{}, error) { return nil, cx.Send(body) })
		if !c.AwaitOrViolate("surveyor/send-stuck", "survey Send with one slow respondent", sk.Done, mon.AwaitOpts{}) {
			return
		}
		if _, e, _ := sk.Result(); e != nil {
			c.Violate("surveyor/send-error", "Send: %v", e)
			return
		}
		if !c.AwaitOrViolate("surveyor/survey-not-broadcast", "survey reaching the fast respondent", func() bool { return fast.SentCount() > before }, mon.AwaitOpts{}) {
			return
		}
		x := fast.SentLog()[before]
		wire := x.Wire()
		if len(wire) < 4 || !bytes.Equal(wire[4:], body) || wire[0]&0x80 == 0 {
			c.Violate("surveyor/survey-mangled", "fast respondent was sent %x for survey body %q", wire, body)
			return
		}
		ref = append(ref, sv{binary.BigEndian.Uint32(wire), body})
	}
	cur := ref[len(ref)-1]
	// the slow respondent drains now
	slow.ReleaseSends()
	c.AwaitOrViolate("surveyor/slow-peer-never-served", "queued surveys reaching the slow respondent once it drains", func() bool { return slow.SentCount() >= 1 }, mon.AwaitOpts{})
	// sentinel: one more survey; when the slow respondent has it, everything queued before is out
	last := []byte(fmt.Sprintf("survey|%s|last|", name))
	if err := cx.Send(last); err != nil {
		c.Violate("surveyor/send-error", "Send: %v", err)
		return
	}
	if !c.AwaitOrViolate("surveyor/survey-not-broadcast", "final survey reaching the slow respondent", func() bool {
		for _, x := range slow.SentLog() {
			if bytes.HasSuffix(x.Wire(), last) {
				return true
			}
		}
		return false
	}, mon.AwaitOpts{}) {
		return
	}
	// the reference entry for the final survey comes from the fast respondent's own copy of it
	var lastID uint32
	if !c.AwaitOrViolate("surveyor/survey-not-broadcast", "final survey reaching the fast respondent", func() bool {
		for _, x := range fast.SentLog() {
			if wire := x.Wire(); len(wire) >= 4 && bytes.Equal(wire[4:], last) {
				lastID = binary.BigEndian.Uint32(wire)
				return true
			}
		}
		return false
	}, mon.AwaitOpts{}) {
		return
	}
	ref = append(ref, sv{lastID, last})
	cur = ref[len(ref)-1]
	pos := 0
	for _, x := range slow.SentLog() {
		wire := x.Wire()
		ok := false
		for pos < len(ref) {
			r := ref[pos]
			pos++
			if len(wire) >= 4 && binary.BigEndian.Uint32(wire) == r.id && bytes.Equal(wire[4:], r.body) {
				ok = true
				break
			}
		}
		if !ok {
			c.Violate("surveyor/queued-survey-mangled", "the slow respondent was sent %x, which is none of the surveys as its neighbour got them (a queued survey's id or body changed while it waited, or the order changed)", wire)
			return
		}
		c.Count("surveys_compared_on_slow_peer", 1)
	}
	// an answer to an abandoned survey arrives late, followed by an answer to the current one
	old := ref[len(ref)-3]
	slow.Inject(hx.Cat(hx.Be32(old.id), []byte("late-answer-to-abandoned")))
	slow.Inject(hx.Cat(hx.Be32(cur.id), []byte("answer-to-current")))
	rk := mon.Go("Recv", func() (interface{}, error) { b, e := cx.Recv(); return b, e })
	if !c.AwaitOrViolate("surveyor/recv-stuck", "Recv of the answer to the current survey", rk.Done, mon.AwaitOpts{}) {
		return
	}
	if v, e, _ := rk.Result(); e != nil || string(v.([]byte)) != "answer-to-current" {
		c.Violate("surveyor/delivered-abandoned-survey:after-queueing", "Recv returned %q, %v; want the answer to the current survey (an answer to an abandoned one was injected first)", v, e)
	}
	c.Nontrivial()
	c.Sig("slow|%d|%d", sp.NCtx, n)
}
