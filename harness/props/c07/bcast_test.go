//go:build verif

package c07

import (
	"bytes"
	"fmt"
	"sync"
	"time"

	"go.nanomsg.org/mangos/v3"

	"verifharness/hx"
	"verifharness/mon"
	"verifharness/vt"
)

// c07Bcast: "every connected respondent is sent each survey (queue space permitting)" when surveys
// are sent concurrently — by several contexts of one SURVEYOR socket, by several goroutines sharing
// a context, or by several goroutines on a raw socket — while several respondents are connected
// (and, in some cases, one more connects or one leaves meanwhile).  All senders start at a barrier
// and send back to back with the library's yield points (Message.Clone / Free included) perturbing
// the schedule, so that the broadcasts interleave.
//
// The number of surveys per connection stays below the default send queue length (128), so there is
// room for every one of them even if a connection's sender never ran meanwhile.  Verdicts are taken
// from a snapshot: after all Sends returned, one more survey is sent alone; a connection's queue is
// FIFO, so once that sentinel is on a connection's wire everything queued for it before is as well.
//   - a connection that was open throughout carries every survey exactly once;
//   - a connection that joined carries every survey whose Send was invoked after it was attached,
//     and none twice; one that left carries none twice;
//   - a survey goes out with one id and its body intact everywhere.
func c07Bcast(c *mon.Case, sp c07Spec) {
	proto := "surveyor"
	if sp.Raw {
		proto = "xsurveyor"
	}
	rig := hx.NewReqRig(c, proto, sp.NCtx, sp.NPipes)
	if c.Failed() || c.Undecided() {
		return
	}
	if !sp.Raw {
		rig.SetAll(mangos.OptionSurveyTime, time.Hour)
	}
	rawID := func(j, k int) uint32 { return 0x80000000 | uint32(j+1)<<16 | uint32(k) }
	send := func(j, k int) error {
		body := rig.ReqBody(j, k)
		if !sp.Raw {
			return rig.Ctxs[j%sp.NCtx].Send(body)
		}
		m := mangos.NewMessage(len(body))
		m.Header = append(m.Header, hx.Be32(rawID(j, k))...)
		m.Body = append(m.Body, body...)
		err := rig.Sock.SendMsg(m)
		if err != nil {
			m.Free()
		}
		return err
	}
	initial := append([]*vt.Pipe{}, rig.Pipes...)

	hx.SetYields(c.Rand.Int63(), &hx.YieldCfg{ProbGosched: 0.3, ProbSleep: 0.25, MaxSleep: 200 * time.Microsecond, Message: true})
	defer hx.SetYields(0, nil)

	type iv struct{ call, ret time.Duration }
	ivs := make([][]iv, sp.NSend)
	start := make(chan struct{})
	var wg sync.WaitGroup
	for j := 0; j < sp.NSend; j++ {
		j := j
		ivs[j] = make([]iv, sp.NOps+1)
		wg.Add(1)
		go func() {
			defer wg.Done()
			<-start
			for k := 1; k <= sp.NOps; k++ {
				t := mon.Now()
				err := send(j, k)
				ivs[j][k] = iv{t, mon.Now()}
				if err != nil {
					c.Violate("surveyor/send-error", "sender %d: Send of survey %d returned %v", j, k, err)
					return
				}
			}
		}()
	}
	// connections joining / leaving while the surveys go out
	var added, dropped *vt.Pipe
	var attachedAt time.Duration
	if sp.Churn != "" {
		pause := time.Duration(c.Rand.Intn(600)) * time.Microsecond
		victim := initial[c.Rand.Intn(len(initial))]
		wg.Add(1)
		go func() {
			defer wg.Done()
			<-start
			mon.Sleep(pause)
			if sp.Churn == "drop" || sp.Churn == "both" {
				victim.Drop()
				dropped = victim
			}
			if sp.Churn == "add" || sp.Churn == "both" {
				p := rig.AddPipe()
				attachedAt = mon.Now()
				added = p
			}
		}()
	}
	close(start)
	done := mon.Go("senders", func() (interface{}, error) { wg.Wait(); return nil, nil })
	if !c.AwaitOrViolate("surveyor/concurrent-send-stuck", fmt.Sprintf("%d concurrent senders finishing %d surveys each", sp.NSend, sp.NOps), done.Done, mon.AwaitOpts{}) {
		return
	}
	hx.SetYields(0, nil)
	if c.Failed() || c.Undecided() {
		return
	}
	// the sentinel: sent alone, after every concurrent Send has returned
	if err := send(sp.NSend, 1); err != nil {
		c.Violate("surveyor/send-error", "Send of the final survey returned %v", err)
		return
	}
	var open []int
	for n, p := range rig.Pipes {
		if p != dropped {
			open = append(open, n)
		}
	}
	if !c.AwaitOrViolate("surveyor/survey-not-broadcast", fmt.Sprintf("the final survey (sent alone) appearing on all %d open connections", len(open)), func() bool {
		seen := map[int]bool{}
		for _, t := range rig.TxsOf(sp.NSend, 1) {
			seen[t.PipeN] = true
		}
		for _, n := range open {
			if !seen[n] {
				return false
			}
		}
		return true
	}, mon.AwaitOpts{}) {
		return
	}
	// snapshot
	rig.Scan()
	rig.Mu.Lock()
	txs := append([]hx.WireTx{}, rig.Txs...)
	bad := append([]string{}, rig.Bad...)
	rig.Mu.Unlock()
	for _, b := range bad {
		c.Violate("surveyor/malformed-transmission", "%s", b)
	}
	per := map[[3]int]int{}
	ids := map[[2]int]uint32{}
	for _, t := range txs {
		per[[3]int{t.Ctx, t.K, t.PipeN}]++
		key := [2]int{t.Ctx, t.K}
		if id, ok := ids[key]; ok && id != t.ID {
			c.Violate("surveyor/survey-id-differs-between-connections", "survey (sender %d, k=%d) sent as id %08x on pipe %d and %08x elsewhere", t.Ctx, t.K, t.ID, t.PipeN, id)
			return
		}
		ids[key] = t.ID
		if sp.Raw && t.Ctx < sp.NSend && t.ID != rawID(t.Ctx, t.K) {
			c.Violate("surveyor/survey-body-altered", "raw survey (sender %d, k=%d) was given header %08x and went out with %08x", t.Ctx, t.K, rawID(t.Ctx, t.K), t.ID)
			return
		}
		if !bytes.Equal(t.Wire[4:], rig.ReqBody(t.Ctx, t.K)) {
			c.Violate("surveyor/survey-body-altered", "survey (sender %d, k=%d) on pipe %d carries body %q", t.Ctx, t.K, t.PipeN, t.Wire[4:])
			return
		}
	}
	describe := fmt.Sprintf("%d senders on %d context(s) of one %s socket, %d surveys each, %d respondents connected", sp.NSend, sp.NCtx, proto, sp.NOps, len(initial))
	checked, missing, twice := 0, 0, 0
	for n, p := range rig.Pipes {
		for j := 0; j < sp.NSend; j++ {
			for k := 1; k <= sp.NOps; k++ {
				cnt := per[[3]int{j, k, n}]
				must := p != dropped && (p != added || ivs[j][k].call > attachedAt)
				switch {
				case cnt > 1:
					twice++
					if twice == 1 {
						c.Violate("surveyor/survey-sent-twice-on-one-connection:concurrent-sends", "survey (sender %d, k=%d) was transmitted %d times on pipe %d; %s", j, k, cnt, n, describe)
					}
				case cnt == 0 && must:
					missing++
					if missing == 1 {
						what := "was connected throughout"
						if p == added {
							what = fmt.Sprintf("was attached at %v, before this Send was invoked at %v", attachedAt, ivs[j][k].call)
						}
						c.Violate("surveyor/survey-not-broadcast:concurrent-sends", "survey (sender %d, k=%d) never reached pipe %d, which %s and has the later, final survey on its wire; %s", j, k, n, what, describe)
					}
				}
				if must {
					checked++
				}
			}
		}
	}
	if missing+twice > 0 {
		c.Logf("%d (survey, connection) pairs missing, %d transmitted more than once", missing, twice)
	}
	// how concurrent was it: Sends whose call interval overlaps a Send of another sender
	overl := 0
	for j := range ivs {
		for k := 1; k <= sp.NOps; k++ {
			a := ivs[j][k]
			hit := false
			for j2 := range ivs {
				if j2 == j {
					continue
				}
				for k2 := 1; k2 <= sp.NOps && !hit; k2++ {
					b := ivs[j2][k2]
					hit = b.call < a.ret && a.call < b.ret
				}
			}
			if hit {
				overl++
			}
		}
	}
	c.Count("concurrent_surveys_sent", sp.NSend*sp.NOps)
	c.Count("concurrent_sends_overlapping_another_send", overl)
	c.Count("concurrent_broadcast_pairs_checked", checked)
	if added != nil {
		c.Count("connections_joined_during_broadcast", 1)
	}
	if dropped != nil {
		c.Count("connections_left_during_broadcast", 1)
	}
	if overl > 0 && checked > 0 {
		c.Nontrivial()
	}
	c.Sig("bcast|%s|s%d|c%d|p%d|n%d|%s", proto, sp.NSend, sp.NCtx, sp.NPipes, sp.NOps, sp.Churn)
}
