package c07

import (
	"bytes"
	"fmt"
	"sync"
	"time"

	"go.nanomsg.org/mangos/v3"

	"verifharness/hx"
	"verifharness/mon"
)

// Real sockets: 2-3 surveyors (raw xsurveyor observers, which deliver every message
// that reaches them, and at most one cooked surveyor) on one respondent socket with
// 1-3 contexts echoing.  In every round all surveyors ask at the same moment, the raw
// ones with the *same* survey id, so that only the connection distinguishes the
// askers.  Each surveyor must receive the echo of its own question and nothing else.

func c07Real(c *mon.Case, sp c07Spec) {
	resp := hx.MustSock(c, "respondent")
	w := hx.WatchPipes(resp)
	nonce := hx.Uniq("r")
	type asker struct {
		kind string
		s    mangos.Socket
	}
	var askers []*asker
	cooked := -1
	if c.Rand.Intn(2) == 0 {
		cooked = c.Rand.Intn(sp.NPipes)
	}
	for j := 0; j < sp.NPipes; j++ {
		a := &asker{kind: "xsurveyor"}
		if j == cooked {
			a.kind = "surveyor"
		}
		a.s = hx.MustSock(c, a.kind)
		if a.kind == "surveyor" {
			if err := a.s.SetOption(mangos.OptionSurveyTime, time.Hour); err != nil {
				panic(err)
			}
		}
		if _, _, err := hx.Connect(resp, a.s, sp.Tr); err != nil {
			c.Inconclusive("connect over %s: %v", sp.Tr, err)
			return
		}
		askers = append(askers, a)
	}
	if !hx.WaitAttached(c, w, sp.NPipes, "surveyors") {
		return
	}
	// respondent side: contexts echoing
	var ctxs []hx.CtxLike
	ctxs = append(ctxs, resp)
	for i := 1; i < sp.NCtx; i++ {
		cx, err := resp.OpenContext()
		if err != nil {
			panic(err)
		}
		ctxs = append(ctxs, cx)
	}
	var wg sync.WaitGroup
	var emu sync.Mutex
	var echoErrs []string
	echoed := 0
	for i, cx := range ctxs {
		i, cx := i, cx
		eseed := c.Rand.Int63()
		wg.Add(1)
		go func() {
			defer wg.Done()
			rnd := hx.NewRand(eseed)
			for {
				b, err := cx.Recv()
				if err != nil {
					if err != mangos.ErrClosed {
						emu.Lock()
						echoErrs = append(echoErrs, fmt.Sprintf("respondent ctx %d Recv: %v", i, err))
						emu.Unlock()
					}
					return
				}
				if rnd.Intn(2) == 0 {
					mon.Sleep(time.Duration(rnd.Intn(300)) * time.Microsecond)
				}
				if err := cx.Send(append([]byte("E|"), b...)); err != nil {
					if err != mangos.ErrClosed {
						emu.Lock()
						echoErrs = append(echoErrs, fmt.Sprintf("respondent ctx %d Send: %v", i, err))
						emu.Unlock()
					}
					return
				}
				emu.Lock()
				echoed++
				emu.Unlock()
			}
		}()
	}
	seed := c.Rand.Int63()
	checked := 0
	for round := 1; round <= sp.NOps && !c.Failed() && !c.Undecided(); round++ {
		id := uint32(0x80000000) | uint32(round)
		if c.Rand.Intn(3) == 0 {
			id = 0x80000000 | c.Rand.Uint32()
		}
		type res struct {
			hdr, body []byte
			err       error
		}
		out := make([]res, len(askers))
		var rw sync.WaitGroup
		for j, a := range askers {
			j, a := j, a
			rw.Add(1)
			go func() {
				defer rw.Done()
				rnd := hx.NewRand(seed + int64(round*16+j))
				if rnd.Intn(2) == 0 {
					mon.Sleep(time.Duration(rnd.Intn(200)) * time.Microsecond)
				}
				q := []byte(fmt.Sprintf("V|%d|%d|%s|", j, round, nonce))
				if a.kind == "surveyor" {
					if err := a.s.Send(q); err != nil {
						out[j].err = fmt.Errorf("Send: %w", err)
						return
					}
					b, err := a.s.Recv()
					out[j] = res{body: b, err: err}
					return
				}
				m := mangos.NewMessage(len(q))
				m.Header = append(m.Header, hx.Be32(id)...)
				m.Body = append(m.Body, q...)
				if err := a.s.SendMsg(m); err != nil {
					m.Free()
					out[j].err = fmt.Errorf("SendMsg: %w", err)
					return
				}
				r, err := a.s.RecvMsg()
				if err != nil {
					out[j].err = err
					return
				}
				out[j] = res{hdr: append([]byte{}, r.Header...), body: append([]byte{}, r.Body...)}
				r.Free()
			}()
		}
		call := mon.Go("round", func() (interface{}, error) { rw.Wait(); return nil, nil })
		if !c.AwaitOrViolate("respondent/answer-not-received", fmt.Sprintf("round %d: each of %d surveyors receiving the answer to its own survey (raw id %08x) over %s", round, len(askers), id, sp.Tr), call.Done, mon.AwaitOpts{}) {
			break
		}
		for j, a := range askers {
			o := out[j]
			if o.err != nil {
				c.Violate("respondent/asker-error", "surveyor %d (%s) round %d: %v", j, a.kind, round, o.err)
				continue
			}
			want := []byte(fmt.Sprintf("E|V|%d|%d|%s|", j, round, nonce))
			if !bytes.Equal(o.body, want) {
				c.Violate("respondent/answer-reached-other-surveyor", "surveyor %d (%s) round %d received %q (header %x); it asked %q", j, a.kind, round, o.body, o.hdr, want[2:])
				continue
			}
			if a.kind == "xsurveyor" && !bytes.Equal(o.hdr, hx.Be32(id)) {
				c.Violate("respondent/answer-header-mismatch", "surveyor %d round %d: answer header %x, survey id %08x", j, round, o.hdr, id)
				continue
			}
			checked++
		}
	}
	resp.Close()
	wd := mon.Go("echoers", func() (interface{}, error) { wg.Wait(); return nil, nil })
	c.AwaitOrViolate("respondent/close-did-not-release-contexts", "respondent contexts returning after Close", wd.Done, mon.AwaitOpts{})
	for _, e := range echoErrs {
		c.Violate("respondent/echo-error", "%s", e)
	}
	c.Count("answers_checked_real", checked)
	c.Count("surveys_echoed_real", echoed)
	if checked >= 2 {
		c.Nontrivial()
	}
	c.Sig("real|%s|%d|%d|%d|%d", sp.Tr, sp.NCtx, sp.NPipes, sp.NOps, cooked)
}
