//go:build verif

package c07

import (
	"bytes"
	"encoding/binary"
	"fmt"
	"time"

	"go.nanomsg.org/mangos/v3"

	"verifharness/hx"
	"verifharness/mon"
	"verifharness/vt"
)

// c07ReOpt: a queue-length option (ReadQLen, WriteQLen) is set while a survey is outstanding —
// on the surveying object itself (socket or context), on the socket while a context surveys, or on
// another context of the socket; to a value smaller than, equal to or larger than the queue the
// running survey was started with, 0 included; before or after a goroutine has parked in Recv on
// that survey.  Whatever the option does to later surveys, the running survey goes on as the
// statement says:
//   - expiry: a Recv waiting on it (nothing queued) is ended with the protocol-state error when
//     the survey time it was sent with has elapsed — not earlier, and it does not block on (stuck
//     detector, MaxTimer = survey time); a Recv after that fails at once, an answer to the expired
//     survey is not delivered
//   - answer: an answer to the running survey that arrives while a Recv is parked on it comes out
//     of that Recv (survey time one hour / no limit); variant queued: so do the answers that had
//     arrived (and fit the new length) before the option was set
//   - supersede: a new survey on the object ends the Recv parked on the old one with an error
//
// and in every variant the next survey abandons the first: with a Recv parked on it, an answer to
// the first injected before the answer to the second on one connection, the Recv returns the second.
// Raw: the same on an xsurveyor socket (one receive queue for the socket, no survey time): a
// RecvMsg parked while ReadQLen / WriteQLen is set gets the answer that arrives afterwards.
func c07ReOpt(c *mon.Case, sp c07Spec) {
	if sp.Raw {
		c07ReOptRaw(c, sp)
		return
	}
	rig := hx.NewReqRig(c, "surveyor", 3, sp.NPipes) // 0: the socket, 1 and 2: contexts
	if c.Failed() || c.Undecided() {
		return
	}
	si := sp.NCtx - 1 // the surveying object
	ti := si          // the object whose option is changed
	switch sp.Via {
	case "socket":
		ti = 0
	case "other":
		ti = 2
	}
	optName, optKey := "readqlen", mangos.OptionReadQLen
	if sp.Opt == "writeq" {
		optName, optKey, ti = "writeqlen", mangos.OptionWriteQLen, 0 // a socket option
	}
	cx := rig.Ctxs[si]
	T1 := time.Hour
	if sp.T1 > 0 {
		T1 = time.Duration(sp.T1) * time.Millisecond
	}
	set := T1
	if sp.T1 < 0 {
		set = 0 // no limit
	}
	rig.SetAll(mangos.OptionSurveyTime, set)
	rig.SetAll(mangos.OptionRecvDeadline, time.Duration(0))
	if sp.Q0 != 128 {
		// the queue length the running survey is started with
		if err := cx.SetOption(mangos.OptionReadQLen, sp.Q0); err != nil {
			c.Violate("surveyor/option-rejected", "SetOption(ReadQLen, %d) before any survey: %v", sp.Q0, err)
			return
		}
	}
	tag := ":" + optName + "-changed-mid-survey"
	pipes := rig.LivePipes()
	serial := 0
	delivered := map[int]bool{}
	answer := func(p *vt.Pipe, id uint32) int {
		serial++
		p.Inject(hx.ReplyWire(id, serial))
		return serial
	}
	anyPipe := func() *vt.Pipe { return pipes[c.Rand.Intn(len(pipes))] }

	survey := func(k int) (id uint32, t0 time.Duration, ok bool) {
		call := mon.Go("Send", func() (interface{}, error) { return nil, cx.Send(rig.ReqBody(si, k)) })
		if !c.AwaitOrViolate("surveyor/send-stuck", fmt.Sprintf("survey %d Send", k), call.Done, mon.AwaitOpts{}) {
			return
		}
		if _, err, _ := call.Result(); err != nil {
			c.Violate("surveyor/send-error", "survey %d Send returned %v", k, err)
			return
		}
		txs, okb := rig.AwaitTx(si, k, len(pipes), 0, "surveyor/survey-not-broadcast")
		if !okb {
			return
		}
		for _, t := range txs {
			if t.ID != txs[0].ID {
				c.Violate("surveyor/survey-id-differs-between-connections", "survey %d sent as id %08x and %08x", k, txs[0].ID, t.ID)
				return
			}
		}
		c.Count("surveys_sent", 1)
		c.Count("survey_transmissions_checked", len(txs))
		return txs[0].ID, call.Started, true
	}
	recvGo := func() *mon.Call {
		return mon.Go("Recv", func() (interface{}, error) { b, err := cx.Recv(); return b, err })
	}
	// park: a Recv with nothing queued that the harness knows to be blocked
	park := func(id uint32, t0 time.Duration) *mon.Call {
		k := recvGo()
		if !k.ParkedIn("RecvMsg") {
			if !k.Done() {
				c.Inconclusive("Recv not observed parked")
				return nil
			}
			v, err, ended := k.Result()
			if err == mangos.ErrProtoState && T1 < time.Hour && ended >= t0+T1 {
				c.Inconclusive("the survey (survey time %v) expired before the Recv was observed parked", T1)
				return nil
			}
			c.Violate("surveyor/recv-returned-with-nothing-queued", "Recv with survey %08x current (survey time %v, sent %v before) and nothing queued returned %q, %v", id, T1, ended-t0, v, err)
			return nil
		}
		return k
	}
	// take: the call must return the answer with serial sn
	take := func(k *mon.Call, sn int, sig, what string) bool {
		if !c.AwaitOrViolate(sig, what, k.Done, mon.AwaitOpts{}) {
			return false
		}
		v, err, _ := k.Result()
		if err != nil {
			c.Violate("surveyor/recv-error:"+err.Error(), "%s: returned %v", what, err)
			return false
		}
		got, okp := hx.ParseReplySerial(v.([]byte))
		if !okp || got < 1 || got > serial {
			c.Violate("surveyor/delivered-uninjected", "%s: returned %q which the harness never injected", what, v)
			return false
		}
		if delivered[got] {
			c.Violate("surveyor/delivered-twice", "%s: returned serial %d a second time", what, got)
			return false
		}
		delivered[got] = true
		if sn > 0 && got != sn {
			c.Violate("surveyor/delivered-noncurrent:stale", "%s: returned serial %d, want %d", what, got, sn)
			return false
		}
		c.Count("responses_delivered", 1)
		return true
	}

	id1, t0, ok := survey(1)
	if !ok {
		return
	}
	// variant queued: answers that arrived before the option is touched
	nq := 0
	if sp.Variant == "queued" {
		nq = 1 + c.Rand.Intn(3)
		if sp.Opt != "writeq" && ti == si && sp.New < nq {
			nq = sp.New
		}
		if nq > sp.Q0 {
			nq = sp.Q0
		}
		p := anyPipe()
		for n := 0; n < nq; n++ {
			answer(p, id1)
		}
		if !rig.Drained(pipes...) {
			return
		}
	}
	var rk *mon.Call
	if sp.Order == "parked-first" && nq == 0 {
		if rk = park(id1, t0); rk == nil {
			return
		}
	}
	if err := rig.Ctxs[ti].SetOption(optKey, sp.New); err != nil {
		c.Violate("surveyor/option-rejected", "SetOption(%s, %d) with a survey outstanding: %v", optKey, sp.New, err)
		return
	}
	c.Count("queue_option_changes_mid_survey", 1)
	if rk != nil {
		c.Count("queue_option_changes_with_recv_parked", 1)
	}
	what := fmt.Sprintf("survey %08x sent with survey time %v and ReadQLen %d, %s then set to %d on %s", id1, T1, sp.Q0, optKey, sp.New,
		map[bool]string{true: "the surveying object", false: "another object of the socket"}[ti == si])
	if rk != nil {
		what += " while the Recv was parked"
	}
	c.Logf("%s (surveying object %d, option on object %d)", what, si, ti)
	for n := 0; n < nq; n++ {
		if !take(recvGo(), 0, "surveyor/recv-stuck"+tag, fmt.Sprintf("Recv #%d of %d answers queued before the option was set; %s", n+1, nq, what)) {
			return
		}
	}
	if rk == nil && sp.Variant == "expiry" {
		rk = recvGo() // it may well find the survey expired already
	} else if rk == nil {
		if rk = park(id1, t0); rk == nil {
			return
		}
	}

	switch sp.Variant {
	case "expiry":
		if !c.AwaitOrViolate("surveyor/recv-stuck"+tag, "Recv (nothing queued) being ended by the expiry of the running survey; "+what, rk.Done, mon.AwaitOpts{MaxTimer: T1}) {
			return
		}
		v, err, ended := rk.Result()
		switch {
		case err == nil:
			c.Violate("surveyor/delivered-uninjected", "Recv returned %q, nothing was injected; %s", v, what)
			return
		case err != mangos.ErrProtoState:
			c.Violate("surveyor/recv-error:"+err.Error(), "Recv waiting for the survey to expire returned %v, want ErrProtoState; %s", err, what)
			return
		case ended < t0+T1:
			c.Violate("surveyor/expired-early"+tag, "Recv returned ErrProtoState %v after Send was invoked; %s", ended-t0, what)
			return
		}
		c.Count("expiries_observed", 1)
		// an answer to the expired survey, then another Recv: fails at once, delivers nothing
		answer(anyPipe(), id1)
		if !rig.Drained(pipes...) {
			return
		}
		k := recvGo()
		if !c.AwaitOrViolate("surveyor/recv-after-expiry-blocked"+tag, "Recv issued after the survey had expired; "+what, k.Done, mon.AwaitOpts{}) {
			return
		}
		if v, err, _ := k.Result(); err == nil {
			c.Violate("surveyor/delivered-after-expiry"+tag, "an answer injected after the survey had expired was delivered (%q); %s", v, what)
			return
		} else if err != mangos.ErrProtoState {
			c.Violate("surveyor/recv-after-expiry-error", "Recv after expiry returned %v, want ErrProtoState", err)
			return
		}
		c.Count("after_expiry_probes", 1)
	case "supersede":
		// handled below: the second survey is sent with rk still parked
	default: // answer, queued
		sn := answer(anyPipe(), id1)
		if !rig.Drained(pipes...) {
			return
		}
		if !take(rk, sn, "surveyor/recv-stuck"+tag, "parked Recv of an answer to the running survey that arrived after the option was set; "+what) {
			return
		}
	}

	// ---- the next survey abandons the first ----
	if T1 < time.Hour {
		// no survey is outstanding any more; the second one is not to run out under the harness
		if err := cx.SetOption(mangos.OptionSurveyTime, time.Hour); err != nil {
			panic(err)
		}
		T1 = time.Hour
	}
	id2, t02, ok := survey(2)
	if !ok {
		return
	}
	if id2 == id1 {
		c.Violate("surveyor/id-reused", "two consecutive surveys carry the same id %08x", id1)
		return
	}
	if sp.Variant == "supersede" {
		if !c.AwaitOrViolate("surveyor/superseded-recv-stuck"+tag, fmt.Sprintf("Recv parked on survey %08x returning after survey %08x was started; %s", id1, id2, what), rk.Done, mon.AwaitOpts{}) {
			return
		}
		if v, err, _ := rk.Result(); err == nil {
			c.Violate("surveyor/superseded-recv-delivered", "Recv parked on survey %08x (nothing queued) returned %q after survey %08x was started; %s", id1, v, id2, what)
			return
		} else {
			c.Count("superseded_recv_"+err.Error(), 1)
		}
	}
	// parked first: the second survey's queue may be unbuffered now (length 0), where an answer
	// is handed over only to a waiting Recv
	k2 := park(id2, t02)
	if k2 == nil {
		return
	}
	p := anyPipe()
	answer(p, id1)
	cur := answer(p, id2)
	if !rig.Drained(pipes...) {
		return
	}
	if !take(k2, cur, "surveyor/recv-stuck", fmt.Sprintf("parked Recv of the answer to the second survey %08x (an answer to the first injected before it)", id2)) {
		return
	}
	rig.Scan()
	for _, b := range rig.Bad {
		c.Violate("surveyor/malformed-transmission", "%s", b)
	}
	c.Nontrivial()
	rel := "same"
	switch {
	case sp.New == 0:
		rel = "zero"
	case sp.New < sp.Q0:
		rel = "smaller"
	case sp.New > sp.Q0:
		rel = "larger"
	}
	c.Sig("reopt|%s|%s|%s|%s|%s|%d|q%d", optName, rel, sp.Variant, sp.Order, sp.Via, sp.NCtx, nq)
}

// c07ReOptRaw: the raw socket.  It has one receive queue; every well-formed answer comes out of
// RecvMsg, also when the queue lengths are set while a RecvMsg is waiting for it.
func c07ReOptRaw(c *mon.Case, sp c07Spec) {
	s := hx.MustSock(c, "xsurveyor")
	name := hx.Uniq("c07o")
	L := vt.L(name)
	c.Cleanup(func() { vt.Forget(name) })
	if err := s.Listen(vt.Addr(name)); err != nil {
		c.Inconclusive("setup: %v", err)
		return
	}
	w := hx.WatchPipes(s)
	var peers []*vt.Pipe
	for i := 0; i < sp.NPipes; i++ {
		peers = append(peers, L.Connect())
	}
	if !hx.WaitAttached(c, w, sp.NPipes, "respondents") {
		return
	}
	optName, optKey := "readqlen", mangos.OptionReadQLen
	if sp.Opt == "writeq" {
		optName, optKey = "writeqlen", mangos.OptionWriteQLen
	}
	tag := ":" + optName + "-changed-mid-survey"
	if sp.Q0 != 128 {
		if err := s.SetOption(mangos.OptionReadQLen, sp.Q0); err != nil {
			c.Violate("surveyor/option-rejected", "xsurveyor SetOption(ReadQLen, %d): %v", sp.Q0, err)
			return
		}
	}
	nonce := hx.Uniq("o")
	drained := func() bool {
		return c.AwaitOrViolate("harness:drain-stuck", "pipe receivers taking injected messages", func() bool {
			for _, p := range peers {
				if p.Pending() != 0 {
					return false
				}
			}
			return true
		}, mon.AwaitOpts{})
	}
	for k := 1; k <= 2; k++ {
		id := 0x80000000 | uint32(c.Rand.Intn(1<<24))<<4 | uint32(k)
		m := mangos.NewMessage(32)
		m.Header = append(m.Header, hx.Be32(id)...)
		body := []byte(fmt.Sprintf("Q|%d|%s|", k, nonce))
		m.Body = append(m.Body, body...)
		sk := mon.Go("SendMsg", func() (interface{}, error) { return nil, s.SendMsg(m) })
		if !c.AwaitOrViolate("surveyor/send-stuck", "raw survey SendMsg (never blocks)", sk.Done, mon.AwaitOpts{}) {
			return
		}
		if _, err, _ := sk.Result(); err != nil {
			c.Violate("surveyor/send-error", "raw survey SendMsg returned %v", err)
			return
		}
		for pn, p := range peers {
			p := p
			if !c.AwaitOrViolate("surveyor/survey-not-broadcast", fmt.Sprintf("raw survey %d reaching respondent %d of %d", k, pn, len(peers)), func() bool { return p.SentCount() >= k }, mon.AwaitOpts{}) {
				return
			}
			if wire := p.SentLog()[k-1].Wire(); !bytes.Equal(wire, hx.Cat(hx.Be32(id), body)) {
				c.Violate("surveyor/survey-body-altered", "raw survey %08x %q went out to respondent %d as %x", id, body, pn, wire)
				return
			}
			c.Count("survey_transmissions_checked", 1)
		}
		c.Count("surveys_sent", 1)
		recvGo := func() *mon.Call {
			return mon.Go("RecvMsg", func() (interface{}, error) { m, err := s.RecvMsg(); return m, err })
		}
		var rk *mon.Call
		if sp.Order == "parked-first" || k == 2 {
			rk = recvGo()
			if !rk.ParkedIn("RecvMsg") {
				if rk.Done() {
					v, err, _ := rk.Result()
					c.Violate("surveyor/recv-returned-with-nothing-queued", "xsurveyor RecvMsg with nothing received returned %v, %v", v, err)
				} else {
					c.Inconclusive("RecvMsg not observed parked")
				}
				return
			}
		}
		val := sp.New
		if k == 2 {
			val = sp.Q0 // and back again, with the RecvMsg parked
		}
		if err := s.SetOption(optKey, val); err != nil {
			c.Violate("surveyor/option-rejected", "xsurveyor SetOption(%s, %d) with a survey outstanding: %v", optKey, val, err)
			return
		}
		c.Count("queue_option_changes_mid_survey", 1)
		if rk != nil {
			c.Count("queue_option_changes_with_recv_parked", 1)
		} else {
			rk = recvGo()
		}
		ans := []byte(fmt.Sprintf("A|%d|%s|", k, nonce))
		peers[c.Rand.Intn(len(peers))].Inject(hx.Cat(hx.Be32(id), ans))
		if !drained() {
			return
		}
		what := fmt.Sprintf("xsurveyor RecvMsg of the answer to raw survey %08x; %s set to %d (before: ReadQLen %d) with the survey outstanding, order %s", id, optKey, val, sp.Q0, sp.Order)
		if !c.AwaitOrViolate("surveyor/recv-stuck"+tag, what, rk.Done, mon.AwaitOpts{}) {
			return
		}
		v, err, _ := rk.Result()
		if err != nil {
			c.Violate("surveyor/recv-error:"+err.Error(), "%s: returned %v", what, err)
			return
		}
		rm := v.(*mangos.Message)
		if len(rm.Header) != 4 || binary.BigEndian.Uint32(rm.Header) != id || !bytes.Equal(rm.Body, ans) {
			c.Violate("surveyor/delivered-uninjected", "%s: returned Header=%x Body=%q, want %08x %q", what, rm.Header, rm.Body, id, ans)
			return
		}
		rm.Free()
		c.Count("responses_delivered", 1)
	}
	c.Nontrivial()
	c.Sig("reopt-raw|%s|%d->%d|%s|%d", optName, sp.Q0, sp.New, sp.Order, sp.NPipes)
}
