package c07

import (
	"bytes"
	"fmt"
	"testing"
	"time"

	"go.nanomsg.org/mangos/v3"

	"verifharness/hx"
	"verifharness/mon"
	"verifharness/vt"
)

// C07 — SURVEYOR delivers only responses to its current, unexpired survey.
//
// script / conc: the harness is every respondent (vt pipes) of one surveyor socket
// with 1..n contexts.  It learns survey id <-> (context, k) from the wire and injects
// responses that carry a unique serial and the id they claim.
// real: real (x)surveyor sockets on one real respondent socket check that each
// answer reaches only the surveyor that asked.

type c07Spec struct {
	Mode   string `json:"mode"` // script | conc | real
	NCtx   int    `json:"nctx"`
	NPipes int    `json:"npipes"`
	NOps   int    `json:"nops"`
	Short  []int  `json:"short_ms"` // per context: survey time in ms, 0 = one hour (never expires), -1 = option value 0 (no limit)
	Tr     string `json:"tr,omitempty"`
	// retime / script-retime: the SurveyTime option is changed while a survey is outstanding
	Retime  bool   `json:"retime,omitempty"`
	T1      int    `json:"t1_ms,omitempty"`   // survey time of the running survey in ms, 0 = one hour
	New     int    `json:"new_ms,omitempty"`  // value set mid-survey in ms, -1 = option value 0 (no limit), 3600000 = one hour
	Via     string `json:"via,omitempty"`     // self | socket | other: the object whose option is changed
	Variant string `json:"variant,omitempty"` // parked | parked-first | late
	// bcast: concurrent Sends with several respondents connected
	NSend int    `json:"nsend,omitempty"`
	Churn string `json:"churn,omitempty"` // "" | add | drop | both: connections joining/leaving meanwhile
	Raw   bool   `json:"raw,omitempty"`
	// reopt: a queue-length option is set while a survey is outstanding (Variant: expiry | answer | queued | supersede)
	Opt   string `json:"opt,omitempty"`   // readq | writeq
	Order string `json:"order,omitempty"` // parked-first | set-first
	Q0    int    `json:"q0"`              // ReadQLen the running survey was started with
	// held: a (raw) respondent holds surveys and answers them late
	Proto string `json:"proto,omitempty"` // xrespondent | respondent
	Hops  int    `json:"hops,omitempty"`  // up to this many device hops before the survey id (vt)
}

func TestMain(m *testing.M) { hx.Main(m) }

func TestC07(t *testing.T) {
	r := mon.NewRunner(t, "C07")
	rnd := r.Rand()
	var cases []mon.CaseSpec
	nscript, nconc, nreal := r.Pick(800, 12000), r.Pick(400, 6000), r.Pick(200, 3000)
	for i := 0; i < nscript; i++ {
		sp := c07Spec{Mode: "script", NCtx: 1 + rnd.Intn(3), NPipes: 1 + rnd.Intn(4), NOps: 10 + rnd.Intn(26)}
		for j := 0; j < sp.NCtx; j++ {
			ms := 0
			if rnd.Intn(5) < 2 {
				ms = 50 + rnd.Intn(251)
			} else if (i+j)%4 == 3 {
				ms = -1 // survey time 0: accepted, and documented as "no limit"
			}
			sp.Short = append(sp.Short, ms)
		}
		cases = append(cases, mon.CaseSpec{Name: "script", Spec: sp})
	}
	for i := 0; i < nconc; i++ {
		cases = append(cases, mon.CaseSpec{Name: "conc", Spec: c07Spec{Mode: "conc", NCtx: 1 + rnd.Intn(3), NPipes: 1 + rnd.Intn(3), NOps: 5 + rnd.Intn(10)}})
	}
	trs := []string{"inproc", "tcp", "ipc"}
	for i := 0; i < nreal; i++ {
		cases = append(cases, mon.CaseSpec{Name: "real", Spec: c07Spec{Mode: "real", NCtx: 1 + rnd.Intn(3), NPipes: 2 + rnd.Intn(2), NOps: 3 + rnd.Intn(6), Tr: trs[rnd.Intn(len(trs))]}})
	}
	for i := 0; i < r.Pick(100, 3000); i++ {
		cases = append(cases, mon.CaseSpec{Name: "slow-respondent", Spec: c07Spec{Mode: "slow", NCtx: 1 + rnd.Intn(2), NPipes: 2, NOps: rnd.Intn(20)}})
	}
	for i := 0; i < r.Pick(16, 400); i++ {
		cases = append(cases, mon.CaseSpec{Name: "expired", Spec: c07Spec{Mode: "expired", NOps: i, NCtx: 1 + (i/2)%2}})
	}
	for i := 0; i < r.Pick(16, 400); i++ {
		cases = append(cases, mon.CaseSpec{Name: "rawq", Spec: c07Spec{Mode: "rawq", NOps: i, NPipes: rnd.Intn(3)}})
	}
	for i := 0; i < r.Pick(24, 600); i++ {
		cases = append(cases, mon.CaseSpec{Name: "openctx", Spec: c07Spec{Mode: "openctx", NCtx: 1 + i%2, NOps: i / 2}})
	}
	// ---- the SurveyTime option changed while a survey is outstanding ----
	for i := 0; i < r.Pick(64, 1600); i++ {
		sp := c07Spec{Mode: "retime", NCtx: 1 + rnd.Intn(2), NPipes: 1 + rnd.Intn(2), NOps: i, T1: 40 + rnd.Intn(61), Via: "self"}
		switch i % 8 {
		case 0, 1, 7:
			sp.New = 3600000 // raised (for the next, longer survey)
		case 2:
			sp.New = 15 * sp.T1 // raised, finite
		case 3:
			sp.New = 5 + sp.T1/4 // lowered
		case 4:
			sp.New = -1 // no limit
		case 5:
			sp.New = sp.T1 // set again to the same value
		case 6:
			sp.T1, sp.New = 0, 20+rnd.Intn(31) // a long survey; the option is lowered for the next one
		}
		sp.Variant = []string{"parked", "late", "parked-first"}[rnd.Intn(3)]
		if (i/8)%4 == 3 {
			sp.Via = []string{"socket", "other"}[rnd.Intn(2)]
		}
		cases = append(cases, mon.CaseSpec{Name: "retime", Spec: sp})
	}
	for i := 0; i < r.Pick(60, 1500); i++ {
		sp := c07Spec{Mode: "script", Retime: true, NCtx: 1 + rnd.Intn(3), NPipes: 1 + rnd.Intn(3), NOps: 12 + rnd.Intn(20)}
		for j := 0; j < sp.NCtx; j++ {
			ms := 0
			if rnd.Intn(2) == 0 {
				ms = 50 + rnd.Intn(151)
			}
			sp.Short = append(sp.Short, ms)
		}
		cases = append(cases, mon.CaseSpec{Name: "script-retime", Spec: sp})
	}
	// ---- concurrent Sends (contexts / goroutines / raw) with several respondents connected ----
	for i := 0; i < r.Pick(72, 2000); i++ {
		sp := c07Spec{Mode: "bcast", NSend: 2 + rnd.Intn(3), NPipes: 2 + rnd.Intn(5), NOps: 6 + rnd.Intn(19)}
		sp.NCtx = 1 + rnd.Intn(sp.NSend) // fewer contexts than senders: goroutines share a context
		if i%6 == 5 {
			sp.Raw, sp.NCtx = true, 1
		}
		if i%4 == 3 {
			sp.Churn = []string{"add", "drop", "both"}[rnd.Intn(3)]
		}
		cases = append(cases, mon.CaseSpec{Name: "concurrent-broadcast", Spec: sp})
	}
	// ---- surveys sent with SendMsg using a Message whose Header is not empty ----
	for i := 0; i < r.Pick(72, 1800); i++ {
		sp := c07Spec{Mode: "hdr", NCtx: 1 + rnd.Intn(3), NPipes: 1 + rnd.Intn(3), NOps: 3 + rnd.Intn(6)}
		for j := 0; j < sp.NCtx; j++ {
			ms := 0
			if (i+j)%4 == 3 {
				ms = -1
			}
			sp.Short = append(sp.Short, ms)
		}
		if i%4 == 1 {
			sp.Tr, sp.NPipes = trs[rnd.Intn(len(trs))], 1
		}
		cases = append(cases, mon.CaseSpec{Name: "survey-with-header", Spec: sp})
	}
	// ---- a queue-length option set while a survey is outstanding, typically with a Recv parked on it ----
	for i := 0; i < r.Pick(80, 2000); i++ {
		sp := c07Spec{Mode: "reopt", NCtx: 1 + rnd.Intn(2), NPipes: 1 + rnd.Intn(3), NOps: i, Via: "self", Opt: "readq", Order: "parked-first", Q0: 128}
		sp.Variant = []string{"expiry", "answer", "supersede", "expiry", "queued", "answer", "expiry", "supersede"}[i%8]
		sp.New = []int{4, 1, 0, 256, 8, 2, 1000, 64, 16, 128}[rnd.Intn(10)]
		if rnd.Intn(3) == 0 {
			sp.Q0 = []int{0, 1, 4, 16}[rnd.Intn(4)]
			if rnd.Intn(4) == 0 {
				sp.New = sp.Q0 // set again to the value the running survey has
			}
		}
		switch sp.Variant {
		case "expiry":
			sp.T1 = 80 + rnd.Intn(121)
		default:
			sp.T1 = -(i / 8 % 2) // one hour, or 0 = no limit
		}
		if (i/8)%5 == 4 {
			sp.Order = "set-first"
		}
		switch (i / 8) % 6 {
		case 2:
			sp.Via = []string{"socket", "other"}[rnd.Intn(2)]
		case 3:
			sp.Opt = "writeq"
		case 5:
			sp.Raw, sp.NPipes = true, 1+rnd.Intn(3)
			if rnd.Intn(3) == 0 {
				sp.Opt = "writeq"
			}
		}
		name := "queue-option-mid-survey"
		if sp.Raw {
			name = "queue-option-mid-survey-raw"
		}
		cases = append(cases, mon.CaseSpec{Name: name, Spec: sp})
	}
	// ---- raw surveys sent in Messages obtained from RecvMsg (Message.Pipe names a connected respondent) ----
	for i := 0; i < r.Pick(48, 1200); i++ {
		sp := c07Spec{Mode: "rawmsg", NPipes: 2 + rnd.Intn(4), NOps: 3 + rnd.Intn(5)}
		if i%4 == 3 {
			sp.Tr, sp.NPipes = trs[rnd.Intn(len(trs))], 2+rnd.Intn(2)
		}
		cases = append(cases, mon.CaseSpec{Name: "raw-survey-in-received-message", Spec: sp})
	}
	// ---- a respondent holding surveys (raw: the received Messages) and answering them late ----
	for i := 0; i < r.Pick(64, 1600); i++ {
		sp := c07Spec{Mode: "held", Proto: "xrespondent", NPipes: 1 + rnd.Intn(3), NOps: 2 + rnd.Intn(6), Hops: rnd.Intn(3)}
		if i%4 == 2 {
			sp.Proto = "respondent"
		}
		if i%4 == 3 {
			sp.Tr, sp.NPipes, sp.NOps, sp.Hops = trs[rnd.Intn(len(trs))], 1+rnd.Intn(3), 2+rnd.Intn(3), 0
			if i%16 == 15 {
				sp.Proto = "respondent"
			}
		}
		cases = append(cases, mon.CaseSpec{Name: "holding-respondent", Spec: sp})
	}
	r.Run(cases, func(c *mon.Case) {
		sp := c.Spec.(c07Spec)
		switch sp.Mode {
		case "held":
			c07Held(c, sp)
		case "reopt":
			c07ReOpt(c, sp)
		case "rawmsg":
			c07RawMsg(c, sp)
		case "hdr":
			c07Hdr(c, sp)
		case "retime":
			c07Retime(c, sp)
		case "bcast":
			c07Bcast(c, sp)
		case "openctx":
			c07OpenCtx(c, sp)
		case "rawq":
			c07RawQ(c, sp)
		case "expired":
			c07Expired(c, sp)
		case "slow":
			c07Slow(c, sp)
		case "script":
			c07Script(c, sp)
		case "conc":
			c07Conc(c, sp)
		default:
			c07Real(c, sp)
		}
	})
}

// ---- sequential scripts ------------------------------------------------------------

type inj struct {
	Serial int
	ID     uint32
	Class  string
	Pipe   int
	Owner  [2]int
}

type sctx struct {
	k       int
	cur     uint32 // id of the survey the model says is current (0: none / known expired)
	t0      time.Duration
	stime   time.Duration // survey time of the running (or last) survey
	next    time.Duration // script-retime: what the option says now, i.e. the next survey's time
	oldIDs  []uint32
	correct []int // serials injected for cur and processed, not yet delivered
	closed  bool
}

type script struct {
	c         *mon.Case
	sp        c07Spec
	rig       *hx.ReqRig
	st        []*sctx
	inj       map[int]*inj
	delivered map[int]bool
	serial    int
	classes   map[string]int
	arrival   string
	nExpiry   int
	nAfter    int
	nSuper    int
	nRetime   int
}

func (s *script) note(f string, a ...interface{}) { s.c.Logf(f, a...) }

func (s *script) live() []int {
	var out []int
	for i, p := range s.rig.Pipes {
		if cl, _, _ := p.Closed(); !cl {
			out = append(out, i)
		}
	}
	return out
}

func (s *script) inject(p int, id uint32, class string) *inj {
	s.serial++
	owner := [2]int{-1, -1}
	s.rig.Mu.Lock()
	if o, ok := s.rig.ByID[id]; ok {
		owner = o
	}
	s.rig.Mu.Unlock()
	ij := &inj{Serial: s.serial, ID: id, Class: class, Pipe: p, Owner: owner}
	s.inj[s.serial] = ij
	s.rig.Pipes[p].Inject(hx.ReplyWire(id, s.serial))
	s.classes[class]++
	s.arrival += class[:1]
	s.note("inject pipe=%d id=%08x class=%s serial=%d", p, id, class, s.serial)
	return ij
}

func (s *script) injectRaw(p int, b []byte, class string) {
	s.rig.Pipes[p].Inject(b)
	s.classes[class]++
	s.arrival += class[:1]
	s.note("inject pipe=%d raw=%x class=%s", p, b, class)
}

func (s *script) drained() bool {
	var ps []*vt.Pipe
	for _, i := range s.live() {
		ps = append(ps, s.rig.Pipes[i])
	}
	return s.rig.Drained(ps...)
}

// send starts survey k+1 on context i and checks the broadcast.
func (s *script) send(i int) bool {
	c, rig, cx := s.c, s.rig, s.st[i]
	cx.k++
	k := cx.k
	if cx.cur != 0 {
		cx.oldIDs = append(cx.oldIDs, cx.cur)
	}
	cx.cur, cx.correct = 0, nil
	if s.sp.Retime {
		cx.stime = cx.next // the option value in force when the survey is sent
	}
	live := s.live()
	body := rig.ReqBody(i, k)
	call := mon.Go("Send", func() (interface{}, error) { return nil, rig.Ctxs[i].Send(rig.ReqBody(i, k)) })
	if !c.AwaitOrViolate("surveyor/send-stuck", fmt.Sprintf("ctx %d Send", i), call.Done, mon.AwaitOpts{}) {
		return false
	}
	if _, err, _ := call.Result(); err != nil {
		c.Violate("surveyor/send-error", "ctx %d Send returned %v", i, err)
		return false
	}
	cx.t0 = call.Started
	// every connected respondent is sent the survey (queues are empty: space permitting holds)
	var txs []hx.WireTx
	seen := map[int]int{}
	ok := c.AwaitOrViolate("surveyor/survey-not-broadcast", fmt.Sprintf("survey ctx=%d k=%d appearing on all %d open connections", i, k, len(live)), func() bool {
		txs = rig.TxsOf(i, k)
		seen = map[int]int{}
		for _, t := range txs {
			seen[t.PipeN]++
		}
		for _, p := range live {
			if seen[p] == 0 {
				return false
			}
		}
		return true
	}, mon.AwaitOpts{})
	if !ok {
		return false
	}
	for _, t := range txs {
		if cx.cur == 0 {
			cx.cur = t.ID
		}
		if t.ID != cx.cur {
			c.Violate("surveyor/survey-id-differs-between-connections", "survey ctx=%d k=%d sent as id %08x on pipe %d and %08x elsewhere", i, k, t.ID, t.PipeN, cx.cur)
			return false
		}
		if !bytes.Equal(t.Wire[4:], body) {
			c.Violate("surveyor/survey-body-altered", "survey ctx=%d k=%d on pipe %d carries body %q, sent %q", i, k, t.PipeN, t.Wire[4:], body)
			return false
		}
		c.Count("survey_transmissions_checked", 1)
	}
	if len(live) == 0 {
		// nobody connected: the id cannot be learned, nothing can be answered
		cx.cur = 0xffffffff
	}
	for _, o := range s.st {
		for _, old := range o.oldIDs {
			if old == cx.cur {
				c.Inconclusive("survey id %08x reused within one case", cx.cur)
				return false
			}
		}
	}
	s.arrival += "S"
	c.Count("surveys_sent", 1)
	s.note("send ctx=%d k=%d id=%08x pipes=%v", i, k, cx.cur, live)
	return true
}

// expireModel moves the current survey of cx to the expired ones.
func (cx *sctx) abandon() {
	if cx.cur != 0 {
		cx.oldIDs = append(cx.oldIDs, cx.cur)
	}
	cx.cur, cx.correct = 0, nil
}

// recv performs one Recv on context i and judges the outcome against the model.
// deadline > 0 arms a receive deadline (only used when nothing acceptable is queued).
func (s *script) recv(i int, deadline time.Duration) (ok bool, err error) {
	c, rig, cx := s.c, s.rig, s.st[i]
	if err := rig.Ctxs[i].SetOption(mangos.OptionRecvDeadline, deadline); err != nil && !cx.closed {
		panic(err)
	}
	maxT := deadline
	if cx.cur != 0 && cx.stime < time.Hour && (deadline == 0 || cx.stime < deadline) {
		maxT = cx.stime
	}
	call := mon.Go("Recv", func() (interface{}, error) { b, err := rig.Ctxs[i].Recv(); return b, err })
	what := fmt.Sprintf("ctx %d Recv (cur=%08x queued correct=%v deadline=%v survey time=%v)", i, cx.cur, cx.correct, deadline, cx.stime)
	sig := "surveyor/recv-stuck"
	if cx.cur == 0 && !cx.closed {
		sig = "surveyor/recv-without-survey-blocks"
	}
	if !c.AwaitOrViolate(sig, what, call.Done, mon.AwaitOpts{MaxTimer: maxT}) {
		return false, nil
	}
	v, err, ended := call.Result()
	s.note("recv ctx=%d -> %q err=%v", i, v, err)
	c.Count("recv_calls", 1)
	if err == nil {
		b := v.([]byte)
		sn, okp := hx.ParseReplySerial(b)
		ij := s.inj[sn]
		if !okp || ij == nil {
			c.Violate("surveyor/delivered-uninjected", "ctx %d Recv returned %q which the harness never injected", i, b)
			return false, nil
		}
		if s.delivered[sn] {
			c.Violate("surveyor/delivered-twice", "ctx %d Recv returned serial %d a second time", i, sn)
			return false, nil
		}
		s.delivered[sn] = true
		c.Count("responses_delivered", 1)
		if cx.cur == 0 || ij.ID != cx.cur {
			state := "no survey in progress"
			if cx.cur != 0 {
				state = fmt.Sprintf("current survey id %08x", cx.cur)
			}
			c.Violate("surveyor/delivered-noncurrent:"+ij.Class, "ctx %d Recv returned response serial %d (id %08x, class %s, id belongs to (ctx,k)=%v) but the context has %s", i, sn, ij.ID, ij.Class, ij.Owner, state)
			return false, nil
		}
		for j, cs := range cx.correct {
			if cs == sn {
				cx.correct = append(cx.correct[:j:j], cx.correct[j+1:]...)
				break
			}
		}
		return true, nil
	}
	switch {
	case cx.closed:
		// a closed context has no survey in progress: any prompt failure satisfies this
		// property (which error a closed object reports is C10's question)
		c.Count("closed_ctx_recv_"+err.Error(), 1)
	case cx.cur == 0:
		if err != mangos.ErrProtoState {
			c.Violate("surveyor/no-survey-recv-error:"+err.Error(), "ctx %d Recv with no survey in progress returned %v, want ErrProtoState", i, err)
		} else {
			c.Count("recv_protostate_without_survey", 1)
		}
	case err == mangos.ErrProtoState:
		// the survey expired: never earlier than SurveyTime after Send was invoked
		if ended < cx.t0+cx.stime {
			c.Violate("surveyor/expired-early", "ctx %d Recv returned ErrProtoState %v after Send was invoked; survey time is %v", i, ended-cx.t0, cx.stime)
			return false, err
		}
		c.Count("expiries_observed", 1)
		s.nExpiry++
		s.arrival += "X"
		cx.abandon()
	case deadline > 0 && err == mangos.ErrRecvTimeout:
		// nothing acceptable was queued; the survey stays current
		c.Count("recv_timeouts", 1)
	default:
		c.Violate("surveyor/recv-error:"+err.Error(), "ctx %d Recv returned %v (cur=%08x, queued correct %v)", i, err, cx.cur, cx.correct)
	}
	return !c.Failed(), err
}

func (s *script) anyOld(except int) (uint32, bool) {
	var ids []uint32
	for j, cx := range s.st {
		if j != except {
			ids = append(ids, cx.oldIDs...)
		}
	}
	if len(ids) == 0 {
		return 0, false
	}
	return ids[s.c.Rand.Intn(len(ids))], true
}

// injectBad injects n responses that must not be delivered to ctx i (some are
// deliverable to another context: those are recorded there).
func (s *script) injectBad(i, p, n int) {
	rnd := s.c.Rand
	cx := s.st[i]
	live := s.live()
	for b := 0; b < n; b++ {
		bp := p
		if rnd.Intn(3) == 0 {
			bp = live[rnd.Intn(len(live))]
		}
		switch rnd.Intn(8) {
		case 0:
			if len(cx.oldIDs) > 0 {
				s.inject(bp, cx.oldIDs[rnd.Intn(len(cx.oldIDs))], "stale")
			}
		case 1:
			if id, ok := s.anyOld(i); ok {
				s.inject(bp, id, "foreign-old")
			}
		case 2:
			if cx.cur != 0 {
				s.inject(bp, cx.cur&0x7fffffff, "bitclear")
			}
		case 3:
			s.injectRaw(bp, make([]byte, rnd.Intn(4)), "short")
		case 4:
			id := rnd.Uint32() | 0x80000000
			s.rig.Mu.Lock()
			_, known := s.rig.ByID[id]
			s.rig.Mu.Unlock()
			if !known {
				s.inject(bp, id, "random-id")
			}
		case 5:
			// a response to another context's current survey: must go to that context only
			j := rnd.Intn(len(s.st))
			if j != i && s.st[j].cur != 0 && s.st[j].cur != 0xffffffff && !s.st[j].closed {
				ij := s.inject(bp, s.st[j].cur, "other-ctx-current")
				s.st[j].correct = append(s.st[j].correct, ij.Serial)
			}
		case 6:
			if cx.cur != 0 {
				s.injectRaw(bp, hx.Be32(cx.cur)[:3], "truncated-id")
			}
		case 7:
			// as if it came back through a device: a routing word in front of the id
			if cx.cur != 0 {
				s.injectRaw(bp, hx.Cat(hx.Be32(rnd.Uint32()&0x7fffffff), hx.ReplyWire(cx.cur, 0)), "extra-word")
			}
		}
	}
}

func c07Script(c *mon.Case, sp c07Spec) {
	rig := hx.NewReqRig(c, "surveyor", sp.NCtx, sp.NPipes)
	if c.Failed() || c.Undecided() {
		return
	}
	s := &script{c: c, sp: sp, rig: rig, inj: map[int]*inj{}, delivered: map[int]bool{}, classes: map[string]int{}}
	for i := 0; i < sp.NCtx; i++ {
		cx := &sctx{stime: time.Hour}
		if sp.Short[i] > 0 {
			cx.stime = time.Duration(sp.Short[i]) * time.Millisecond
		}
		set := cx.stime
		if sp.Short[i] < 0 {
			set = 0 // never expires: the model's "one hour" stands for it
			c.Count("contexts_with_survey_time_0", 1)
		}
		if err := rig.Ctxs[i].SetOption(mangos.OptionSurveyTime, set); err != nil {
			panic(err)
		}
		cx.next = cx.stime
		s.st = append(s.st, cx)
	}
	rnd := c.Rand
	good := func() bool { return !c.Failed() && !c.Undecided() }

	for op := 0; op < sp.NOps && good(); op++ {
		i := rnd.Intn(sp.NCtx)
		if s.st[i].closed && rnd.Intn(4) != 0 {
			i = rnd.Intn(sp.NCtx) // closed contexts only get an occasional probe
		}
		cx := s.st[i]
		live := s.live()
		if len(live) == 0 {
			rig.AddPipe()
			s.arrival += "+"
			continue
		}
		p := live[rnd.Intn(len(live))]
		hasCur := cx.cur != 0 && cx.cur != 0xffffffff
		if sp.Retime && !cx.closed && rnd.Intn(5) == 0 {
			// the option is changed, typically with a survey outstanding: it is the next survey's
			// time; the running survey keeps the time it was sent with (cx.stime)
			var nv time.Duration
			switch rnd.Intn(5) {
			case 0, 1:
				nv = time.Hour
			case 2:
				nv = 0
			case 3:
				nv = time.Duration(50+rnd.Intn(151)) * time.Millisecond
			default:
				nv = time.Duration(10+rnd.Intn(20)) * time.Millisecond
			}
			if err := rig.Ctxs[i].SetOption(mangos.OptionSurveyTime, nv); err != nil {
				c.Violate("surveyor/option-rejected", "ctx %d SetOption(SurveyTime, %v): %v", i, nv, err)
				break
			}
			cx.next = nv
			if nv == 0 {
				cx.next = time.Hour // no limit
			}
			if cx.cur != 0 {
				c.Count("survey_time_changes_mid_survey", 1)
				s.nRetime++
			}
			s.arrival += "T"
			s.note("retime ctx=%d -> %v (running survey %08x keeps %v)", i, nv, cx.cur, cx.stime)
			continue
		}
		switch x := rnd.Intn(100); {
		case cx.closed:
			if err := rig.Ctxs[i].Send([]byte("x")); err == nil {
				c.Violate("surveyor/closed-ctx-send-accepted", "ctx %d (closed) Send returned nil", i)
			}
			s.recv(i, 0)
		case x < 22 || (cx.k == 0 && x < 60):
			s.send(i)
		case x < 55:
			// bad responses first, then (usually) correct ones as sentinels on the same pipe; drain; Recv
			s.injectBad(i, p, rnd.Intn(4))
			if hasCur && rnd.Intn(6) != 0 {
				for n := 1 + rnd.Intn(2); n > 0; n-- {
					pp := p
					if n > 1 {
						pp = live[rnd.Intn(len(live))]
					}
					ij := s.inject(pp, cx.cur, "correct")
					cx.correct = append(cx.correct, ij.Serial)
				}
			}
			if !s.drained() {
				break
			}
			// receive every queued correct response: anything accepted before them on the
			// same connections would have come out first
			for good() && len(cx.correct) > 0 {
				if ok, err := s.recv(i, 0); !ok || err != nil {
					break
				}
			}
			if good() && cx.cur != 0 && len(cx.correct) == 0 && rnd.Intn(2) == 0 {
				s.recv(i, 12*time.Millisecond) // nothing acceptable left: deadline, or expiry for a short survey
			}
		case x < 63:
			if len(cx.correct) > 0 {
				s.recv(i, 0)
			} else if cx.cur != 0 {
				s.recv(i, 12*time.Millisecond)
			} else {
				s.recv(i, 0) // no survey in progress: must fail at once
			}
		case x < 75 && cx.cur != 0 && cx.stime < time.Hour:
			// expiry: block in Recv with nothing queued until the survey time ends the wait
			if _, err := s.recv(i, 0); err == mangos.ErrProtoState && good() {
				// after expiry: an answer to the expired survey arrives; Recv must still fail at once
				old := cx.oldIDs[len(cx.oldIDs)-1]
				s.inject(p, old, "after-expiry")
				if s.drained() {
					s.recv(i, 0)
					s.nAfter++
					c.Count("after_expiry_probes", 1)
				}
			}
		case x < 84 && hasCur && len(cx.correct) == 0 && cx.stime == time.Hour:
			// a new survey abandons the old one while a Recv is parked on it
			oldID := cx.cur
			if err := rig.Ctxs[i].SetOption(mangos.OptionRecvDeadline, time.Duration(0)); err != nil {
				panic(err)
			}
			parked := mon.Go("Recv(parked)", func() (interface{}, error) { b, err := rig.Ctxs[i].Recv(); return b, err })
			if !parked.ParkedIn("RecvMsg") {
				if parked.Done() {
					v, err, _ := parked.Result()
					c.Violate("surveyor/recv-returned-with-nothing-queued", "ctx %d Recv with survey %08x current and nothing queued returned %q, %v", i, oldID, v, err)
				} else {
					c.Inconclusive("parked Recv not observed parked")
				}
				break
			}
			if !s.send(i) {
				break
			}
			if !c.AwaitOrViolate("surveyor/superseded-recv-stuck", fmt.Sprintf("ctx %d Recv parked on survey %08x returning after a new Send", i, oldID), parked.Done, mon.AwaitOpts{}) {
				break
			}
			v, err, _ := parked.Result()
			s.note("superseded recv -> %q err=%v", v, err)
			if err == nil {
				c.Violate("surveyor/superseded-recv-delivered", "ctx %d: Recv parked on survey %08x (nothing queued) returned %q after survey %08x was started", i, oldID, v, cx.cur)
				break
			}
			c.Count("superseded_recv_"+err.Error(), 1)
			s.nSuper++
			s.arrival += "C"
			// late answers to the abandoned survey, then the sentinel for the new one
			if cx.cur != 0xffffffff {
				s.inject(p, oldID, "abandoned")
				if rnd.Intn(2) == 0 {
					s.inject(p, oldID, "abandoned")
				}
				ij := s.inject(p, cx.cur, "correct")
				cx.correct = append(cx.correct, ij.Serial)
				if s.drained() {
					s.recv(i, 0)
				}
			}
		case x < 88 && i != 0:
			err := rig.Ctxs[i].Close()
			s.note("close ctx=%d err=%v", i, err)
			if err != nil {
				c.Violate("surveyor/ctx-close-error", "ctx %d Close returned %v", i, err)
			}
			cx.abandon()
			cx.closed = true
		case x < 92:
			if len(live) > 1 && rnd.Intn(2) == 0 {
				// drained first, so that what was injected for the model's "correct" lists is not lost
				if s.drained() {
					rig.Pipes[p].Drop()
					s.arrival += "-"
					s.note("drop pipe=%d", p)
				}
			} else if len(rig.Pipes) < 6 {
				rig.AddPipe()
				s.arrival += "+"
			}
		default:
			// a late duplicate of an already delivered / abandoned survey's answer, then a sentinel round
			if len(cx.oldIDs) > 0 {
				s.inject(p, cx.oldIDs[len(cx.oldIDs)-1], "late-duplicate")
				if hasCur {
					ij := s.inject(p, cx.cur, "correct")
					cx.correct = append(cx.correct, ij.Serial)
					if s.drained() {
						s.recv(i, 0)
					}
				} else {
					s.drained()
				}
			}
		}
	}
	// every survey at most once per connection
	rig.Scan()
	rig.Mu.Lock()
	per := map[[3]int]int{}
	for _, t := range rig.Txs {
		per[[3]int{t.Ctx, t.K, t.PipeN}]++
	}
	bad := append([]string{}, rig.Bad...)
	rig.Mu.Unlock()
	for k, n := range per {
		if n > 1 {
			c.Violate("surveyor/survey-sent-twice-on-one-connection", "survey ctx=%d k=%d was transmitted %d times on pipe %d", k[0], k[1], n, k[2])
		}
	}
	for _, b := range bad {
		c.Violate("surveyor/malformed-transmission", "%s", b)
	}
	for k, v := range s.classes {
		c.Count("injected_"+k, v)
	}
	nbad := 0
	for k, v := range s.classes {
		if k != "correct" {
			nbad += v
		}
	}
	if (len(s.delivered) > 0 && nbad > 0) || s.nExpiry > 0 || s.nSuper > 0 {
		c.Nontrivial()
	}
	c.Sig("script|%d|%d|%v|%s", sp.NCtx, sp.NPipes, sp.Short, s.arrival)
}
