//go:build verif

package c07

import (
	"encoding/binary"
	"fmt"
	"time"

	"go.nanomsg.org/mangos/v3"

	"verifharness/hx"
	"verifharness/mon"
	"verifharness/vt"
)

// c07RawQ: "every connected respondent is sent each survey (queue space permitting)" on the raw
// SURVEYOR socket for every accepted write queue length, 0 included.  The surveys are paced on the
// respondents' receipt, so with a queue of one or more there is room for every survey; with an
// unbuffered queue a survey is handed over only when the connection's sender is waiting for it, so
// there only "some survey reaches every respondent" is required (never none at all).
func c07RawQ(c *mon.Case, sp c07Spec) {
	s := hx.MustSock(c, "xsurveyor")
	q := sp.NOps % 4
	if q == 3 {
		q = 8
	}
	if err := s.SetOption(mangos.OptionWriteQLen, q); err != nil {
		c.Violate("surveyor/option-rejected", "xsurveyor SetOption(WriteQLen, %d): %v", q, err)
		return
	}
	name := hx.Uniq("c07q")
	L := vt.L(name)
	c.Cleanup(func() { vt.Forget(name) })
	if err := s.Listen(vt.Addr(name)); err != nil {
		c.Inconclusive("setup: %v", err)
		return
	}
	w := hx.WatchPipes(s)
	np := 1 + sp.NPipes
	var peers []*vt.Pipe
	for i := 0; i < np; i++ {
		peers = append(peers, L.Connect())
	}
	if !hx.WaitAttached(c, w, np, "respondents") {
		return
	}
	n := 6
	for k := 1; k <= n; k++ {
		m := mangos.NewMessage(16)
		m.Header = append(m.Header, 0x80, 0, 0, byte(k))
		m.Body = append(m.Body, fmt.Sprintf("survey-%d", k)...)
		sk := mon.Go("SendMsg", func() (interface{}, error) { return nil, s.SendMsg(m) })
		if !c.AwaitOrViolate("surveyor/send-stuck", "raw survey SendMsg (never blocks)", sk.Done, mon.AwaitOpts{}) {
			return
		}
		if _, err, _ := sk.Result(); err != nil {
			m.Free()
			c.Violate("surveyor/send-error", "raw survey SendMsg returned %v", err)
			return
		}
		if q > 0 {
			if !c.AwaitOrViolate("surveyor/survey-not-broadcast", fmt.Sprintf("survey %d reaching all %d respondents (WriteQLen %d, paced)", k, np, q), func() bool {
				for _, p := range peers {
					if p.SentCount() < k {
						return false
					}
				}
				return true
			}, mon.AwaitOpts{}) {
				return
			}
		} else {
			mon.Sleep(2 * time.Millisecond)
		}
	}
	for i, p := range peers {
		lg := p.SentLog()
		if q == 0 && len(lg) == 0 {
			c.Violate("surveyor/survey-not-broadcast", "with WriteQLen 0 respondent %d was sent none of %d paced surveys", i, n)
			return
		}
		prev := uint32(0)
		for _, x := range lg {
			if len(x.Header)+len(x.Body) < 4 {
				c.Violate("surveyor/queued-survey-mangled", "respondent %d was sent %x", i, x.Wire())
				return
			}
			id := binary.BigEndian.Uint32(x.Wire()) & 0xff
			if id <= prev {
				c.Violate("surveyor/survey-not-broadcast", "respondent %d was sent survey %d after survey %d", i, id, prev)
				return
			}
			prev = id
		}
	}
	c.Count("raw_surveys_broadcast", n)
	c.Nontrivial()
	c.Sig("rawq|q%d|n%d", q, np)
}
