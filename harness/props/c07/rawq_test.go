//go:build verif

package c07

import (
	"encoding/binary"
	"fmt"
	"time"

	"go.nanomsg.org/mangos/v3"

	"verifharness/hx"
	"verifharness/mon"
	"verifharness/vt"
)

// c07RawQ: "every connected respondent is sent each survey (queue space permitting)" on the raw
// SURVEYOR socket for every accepted write queue length, 0 included.  The surveys are paced on the
// respondents' receipt, so with a queue of one or more there is room for every survey; with an
// unbuffered queue a survey is handed over only when the connection's sender is waiting for it, so
// there only "some survey reaches every respondent" is required (never none at all).
func c07RawQ(c *mon.Case, sp c07Spec) {
	s := hx.MustSock(c, "xsurveyor")
	q := sp.NOps % 4
	if q == 3 {
		q = 8
	}
	if err := s.SetOption(mangos.OptionWriteQLen, q); err != nil {
		c.Violate("surveyor/option-rejected", "xsurveyor SetOption(WriteQLen, %d): %v", q, err)
		return
	}
	name := hx.Uniq("c07q")
	L := vt.L(name)
	c.Cleanup(func() { vt.Forget(name) })
	if err := s.Listen(vt.Addr(name)); err != nil {
		c.Inconclusive("setup: %v", err)
		return
	}
	w := hx.WatchPipes(s)
	np := 1 + sp.NPipes
	var peers []*vt.Pipe
	for i := 0; i < np; i++ {
		peers = append(peers, L.Connect())
	}
	if !hx.WaitAttached(c, w, np, "respondents") {
		return
	}
	n := 6
	for k := 1; k <= n; k++ {
		m := mangos.NewMessage(16)
		m.Header = append(m.Header, 0x80, 0, 0, byte(k))
		m.Body = append(m.Body, fmt.Sprintf("survey-%d", k)...)
		sk := mon.Go("SendMsg", func() (interface{}, error) { return nil, s.SendMsg(m) })
		if !c.AwaitOrViolate("surveyor/send-stuck", "raw survey SendMsg (never blocks)", sk.Done, mon.AwaitOpts{}) {
			return
		}
		if _, err, _ := sk.Result(); err != nil {
			m.Free()
			c.Violate("surveyor/send-error", "raw survey SendMsg returned %v", err)
			return
		}
		if q > 0 {
			if !c.AwaitOrViolate("surveyor/survey-not-broadcast", fmt.Sprintf("survey %d reaching all %d respondents (WriteQLen %d, paced)", k, np, q), func() bool {
				for _, p := range peers {
					if p.SentCount() < k {
						return false
					}
				}
				return true
			}, mon.AwaitOpts{}) {
				return
			}
		} else {
			mon.Sleep(2 * time.Millisecond)
		}
	}
	for i, p := range peers {
		lg := p.SentLog()
		if q == 0 && len(lg) == 0 {
			c.Violate("surveyor/survey-not-broadcast", "with WriteQLen 0 respondent %d was sent none of %d paced surveys", i, n)
			return
		}
		prev := uint32(0)
		for _, x := range lg {
			if len(x.Header)+len(x.Body) < 4 {
				c.Violate("surveyor/queued-survey-mangled", "respondent %d was sent %x", i, x.Wire())
				return
			}
			id := binary.BigEndian.Uint32(x.Wire()) & 0xff
			if id <= prev {
				c.Violate("surveyor/survey-not-broadcast", "respondent %d was sent survey %d after survey %d", i, id, prev)
				return
			}
			prev = id
		}
	}
	c.Count("raw_surveys_broadcast", n)
	c.Nontrivial()
	c.Sig("rawq|q%d|n%d", q, np)
}

// c07Expired: the survey time runs from Send and ends the survey whether or not the application has
// called Recv meanwhile.  Variant "queued": responses arrived in time but were not collected before
// the survey time elapsed; variant "late": a response arrives after it elapsed.  Either way the
// Recv that follows fails with the protocol-state error, promptly, and delivers nothing.
func c07Expired(c *mon.Case, sp c07Spec) {
	s := hx.MustSock(c, "surveyor")
	const T = 40 * time.Millisecond
	s.SetOption(mangos.OptionSurveyTime, T)
	name := hx.Uniq("c07e")
	L := vt.L(name)
	c.Cleanup(func() { vt.Forget(name) })
	if err := s.Listen(vt.Addr(name)); err != nil {
		c.Inconclusive("setup: %v", err)
		return
	}
	w := hx.WatchPipes(s)
	r := L.Connect()
	if !hx.WaitAttached(c, w, 1, "respondent") {
		return
	}
	type ctxT interface {
		Send([]byte) error
		Recv() ([]byte, error)
		SetOption(string, interface{}) error
	}
	var cx ctxT = s
	if sp.NCtx > 1 {
		x, err := s.OpenContext()
		if err != nil {
			c.Violate("surveyor/open-context-error", "%v", err)
			return
		}
		x.SetOption(mangos.OptionSurveyTime, T)
		cx = x
	}
	variant := []string{"queued", "late"}[sp.NOps%2]
	sk := mon.Go("Send", func() (interface{}, error) { return nil, cx.Send([]byte("survey-" + name)) })
	if !c.AwaitOrViolate("surveyor/send-stuck", "survey Send", sk.Done, mon.AwaitOpts{MaxTimer: T}) {
		return
	}
	tSent := mon.Now() // the survey time started before this
	if !c.AwaitOrViolate("surveyor/survey-not-broadcast", "the survey reaching the respondent", func() bool { return r.SentCount() >= 1 }, mon.AwaitOpts{MaxTimer: T}) {
		return
	}
	wire := r.SentLog()[0].Wire()
	if len(wire) < 4 {
		c.Violate("surveyor/queued-survey-mangled", "survey went out as %x", wire)
		return
	}
	id := wire[:4]
	if variant == "queued" {
		r.Inject(hx.Cat(id, []byte("in-time-1")))
		r.Inject(hx.Cat(id, []byte("in-time-2")))
		mon.Await(func() bool { return r.Pending() == 0 }, mon.AwaitOpts{Watchdog: 2 * time.Second})
	}
	// "Expired by now" is an upper bound on the library's timer: the pause is 10x the survey time and
	// the verdict below is canary-calibrated (DESIGN 1.2), else inconclusive.
	mon.Sleep(10 * T)
	if variant == "late" {
		r.Inject(hx.Cat(id, []byte("too-late")))
		mon.Await(func() bool { return r.Pending() == 0 }, mon.AwaitOpts{Watchdog: 2 * time.Second})
		mon.Sleep(time.Millisecond)
	}
	if mon.Now()-tSent < T {
		c.Inconclusive("the pause did not outlast the survey time")
		return
	}
	tRecv := mon.Now()
	rk := mon.Go("Recv", func() (interface{}, error) { b, e := cx.Recv(); return b, e })
	if !c.AwaitOrViolate("surveyor/recv-after-expiry-blocked", "Recv issued (first Recv of this survey) well after the survey time "+T.String()+" had elapsed ("+variant+")", rk.Done, mon.AwaitOpts{}) {
		return
	}
	v, err, _ := rk.Result()
	if err == nil {
		if !mon.UpperBoundExceeded(tRecv-tSent, T) {
			c.Inconclusive("Recv issued %v after Send returned (survey time %v) returned %q, but the scheduler was too slow during the case (canary worst %v) to say the survey timer must have run", tRecv-tSent, T, v, mon.CanaryWorst())
			return
		}
		c.Violate("surveyor/delivered-after-expiry:"+variant, "Recv issued %v after Send returned (survey time %v) returned %q; after expiry it must fail with the protocol-state error", tRecv-tSent, T, v)
		return
	}
	if err != mangos.ErrProtoState {
		c.Violate("surveyor/recv-after-expiry-error", "Recv after expiry returned %v, want ErrProtoState", err)
		return
	}
	c.Count("recv_after_expiry_protostate", 1)
	c.Nontrivial()
	c.Sig("expired|%s|%d", variant, sp.NCtx)
}
