//go:build verif

package c07

import (
	"bytes"
	"encoding/binary"
	"time"

	"go.nanomsg.org/mangos/v3"

	"verifharness/hx"
	"verifharness/mon"
	"verifharness/vt"
)

// c07OpenCtx: a context opened while another context (here the socket's own) has a survey in
// progress starts with no survey of its own.  Its Recv fails with the protocol-state error instead
// of waiting for (or returning) an answer to the other survey, and its first Send does not abandon
// the other survey: each context still gets exactly the answers to its own survey.
func c07OpenCtx(c *mon.Case, sp c07Spec) {
	s := hx.MustSock(c, "surveyor")
	s.SetOption(mangos.OptionSurveyTime, time.Hour)
	name := hx.Uniq("c07o")
	L := vt.L(name)
	c.Cleanup(func() { vt.Forget(name) })
	if err := s.Listen(vt.Addr(name)); err != nil {
		c.Inconclusive("setup: %v", err)
		return
	}
	w := hx.WatchPipes(s)
	r := L.Connect()
	if !hx.WaitAttached(c, w, 1, "respondent") {
		return
	}
	type ctxT interface {
		Send([]byte) error
		Recv() ([]byte, error)
		SetOption(string, interface{}) error
	}
	// the context with the survey in progress: the socket itself, or an explicit context
	var first ctxT = s
	if sp.NCtx > 1 {
		x, err := s.OpenContext()
		if err != nil {
			c.Violate("surveyor/open-context-error", "%v", err)
			return
		}
		x.SetOption(mangos.OptionSurveyTime, time.Hour)
		first = x
	}
	survey := func(cx ctxT, body string, n int) (uint32, bool) {
		k := mon.Go("Send", func() (interface{}, error) { return nil, cx.Send([]byte(body)) })
		if !c.AwaitOrViolate("surveyor/send-stuck", "survey Send", k.Done, mon.AwaitOpts{}) {
			return 0, false
		}
		if _, err, _ := k.Result(); err != nil {
			c.Violate("surveyor/send-error", "survey Send returned %v", err)
			return 0, false
		}
		if !c.AwaitOrViolate("surveyor/survey-not-broadcast", "the survey reaching the respondent", func() bool { return r.SentCount() >= n }, mon.AwaitOpts{}) {
			return 0, false
		}
		wire := r.SentLog()[n-1].Wire()
		if len(wire) < 4 || !bytes.Equal(wire[4:], []byte(body)) {
			c.Violate("surveyor/queued-survey-mangled", "survey %q went out as %x", body, wire)
			return 0, false
		}
		return binary.BigEndian.Uint32(wire), true
	}
	id1, ok := survey(first, "survey-1-"+name, 1)
	if !ok {
		return
	}
	// opened while survey 1 is in progress
	second, err := s.OpenContext()
	if err != nil {
		c.Violate("surveyor/open-context-error", "OpenContext with a survey in progress: %v", err)
		return
	}
	if v, err := second.GetOption(mangos.OptionSurveyTime); err != nil || v != time.Hour {
		c.Logf("new context survey time %v, %v", v, err)
	}
	if sp.NOps%2 == 0 {
		// an answer to survey 1 is even available: the new context must not see it
		r.Inject(hx.Cat(hx.Be32(id1), []byte("answer-1a")))
		mon.Await(func() bool { return r.Pending() == 0 }, mon.AwaitOpts{Watchdog: 5 * time.Second})
	}
	rk := mon.Go("Recv", func() (interface{}, error) { b, e := second.Recv(); return b, e })
	if !c.AwaitOrViolate("surveyor/recv-without-survey-blocked", "Recv on a context that was opened while another context's survey is in progress and has not sent a survey itself", rk.Done, mon.AwaitOpts{}) {
		return
	}
	if v, err, _ := rk.Result(); err != mangos.ErrProtoState {
		c.Violate("surveyor/new-context-has-a-survey", "Recv on a freshly opened context (no survey of its own; another context's survey %08x in progress) returned (%q, %v), want ErrProtoState", id1, v, err)
		return
	}
	c.Count("fresh_context_recv_protostate", 1)
	// its first survey must not abandon the other context's survey
	id2, ok := survey(second, "survey-2-"+name, 2)
	if !ok {
		return
	}
	if id2 == id1 {
		c.Violate("surveyor/id-reused", "two surveys in progress carry the same id %08x", id1)
		return
	}
	r.Inject(hx.Cat(hx.Be32(id2), []byte("answer-2")))
	r.Inject(hx.Cat(hx.Be32(id1), []byte("answer-1b")))
	expect := func(cx ctxT, who string, want ...string) bool {
		for _, wnt := range want {
			k := mon.Go("Recv", func() (interface{}, error) { b, e := cx.Recv(); return b, e })
			if !c.AwaitOrViolate("surveyor/recv-stuck", who+": Recv of an injected answer to its own survey", k.Done, mon.AwaitOpts{}) {
				return false
			}
			v, err, _ := k.Result()
			if err != nil {
				c.Violate("surveyor/recv-error", "%s: Recv returned %v although an answer to its survey (still in progress, survey time 1h) was injected — a Send on another context abandoned it", who, err)
				return false
			}
			if string(v.([]byte)) != wnt {
				c.Violate("surveyor/delivered-other-contexts-answer", "%s: Recv returned %q, want %q", who, v, wnt)
				return false
			}
			c.Count("responses_delivered", 1)
		}
		return true
	}
	want1 := []string{"answer-1b"}
	if sp.NOps%2 == 0 {
		want1 = []string{"answer-1a", "answer-1b"}
	}
	if !expect(first, "the context whose survey was in progress", want1...) || !expect(second, "the new context", "answer-2") {
		return
	}
	c.Nontrivial()
	c.Sig("openctx|%d|%d", sp.NCtx, sp.NOps%2)
}
