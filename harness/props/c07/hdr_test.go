//go:build verif

package c07

import (
	"bytes"
	"encoding/binary"
	"fmt"
	"time"

	"go.nanomsg.org/mangos/v3"

	"verifharness/hx"
	"verifharness/mon"
)

// c07Hdr: surveys sent with SendMsg using a Message whose Header is NOT empty.
//
// An application that uses the Message interface passes on what it has: an answer obtained from
// RecvMsg on a surveyor context still carries, as its Header, the id of the survey it answered;
// a Dup of it does too; a hand-made message may carry anything.  Whatever the Header held, the
// survey is a survey of the sending context: every connected respondent is sent it under ONE
// fresh survey id followed by the body as it was handed in, the answer to that id reaches the
// sending context, and an answer to the id that was in the Header goes to the context whose
// current survey it is (if any) and to nobody else.
//
// Tr == "": the harness is every respondent (vt pipes) and reads the wire.
// Tr != "": one real respondent socket over a real transport; it must see the body unchanged
// and its answer must reach the context that asked.

type hdrMsgCtx interface {
	SendMsg(*mangos.Message) error
	RecvMsg() (*mangos.Message, error)
	SetOption(string, interface{}) error
}

type hdrPooled struct {
	m    *mangos.Message
	from int    // context whose RecvMsg returned it
	id   uint32 // id of the survey it answered
}

type hdrRun struct {
	c     *mon.Case
	sp    c07Spec
	ctxs  []hdrMsgCtx
	cur   []uint32
	pool  []*hdrPooled
	nonce string
	ser   int
	arr   string
	used  map[uint32]bool
}

// build makes the message for the next survey and says where its Header came from.
func (h *hdrRun) build(i, round int) (m *mangos.Message, origin string, hdr, want []byte) {
	rnd := h.c.Rand
	x := rnd.Intn(10)
	if round == 0 || (len(h.pool) == 0 && x < 6) {
		x = 9 - rnd.Intn(2)*2 // 9 (fresh) or 7 (hand)
		if round == 0 {
			x = 9
		}
	}
	switch {
	case x < 6 && len(h.pool) > 0:
		// an answer received earlier (on this or another context), passed on as it is
		n := rnd.Intn(len(h.pool))
		pm := h.pool[n]
		origin = "answer-other-ctx"
		if pm.from == i {
			origin = "answer-same-ctx"
		}
		if x < 2 {
			m = pm.m.Dup() // the application keeps the original
			origin += "-dup"
		} else {
			m = pm.m
			h.pool = append(h.pool[:n:n], h.pool[n+1:]...)
		}
		if x == 5 {
			// the body is replaced, the message (and its header) reused
			m.Body = append(m.Body[:0], []byte(fmt.Sprintf("Q|%d|%d|%s|", i, round, h.nonce))...)
			origin += "-newbody"
		}
	case x < 8:
		// hand-made header: 1..12 arbitrary bytes, or the id of some survey of this case
		m = mangos.NewMessage(32)
		m.Body = append(m.Body, []byte(fmt.Sprintf("Q|%d|%d|%s|", i, round, h.nonce))...)
		switch rnd.Intn(3) {
		case 0:
			n := 1 + rnd.Intn(12)
			for k := 0; k < n; k++ {
				m.Header = append(m.Header, byte(rnd.Intn(256)))
			}
			origin = fmt.Sprintf("hand-%dbytes", n)
		case 1:
			m.Header = append(m.Header, hx.Be32(rnd.Uint32()|0x80000000)...)
			origin = "hand-id-shaped"
		default:
			j := rnd.Intn(len(h.cur))
			m.Header = append(m.Header, hx.Be32(h.cur[j])...)
			origin = "hand-current-id-of-other-ctx"
			if j == i {
				origin = "hand-current-id-of-same-ctx"
			}
			if h.cur[j] == 0 {
				origin = "hand-zero-word"
			}
		}
	default:
		m = mangos.NewMessage(32)
		m.Body = append(m.Body, []byte(fmt.Sprintf("Q|%d|%d|%s|", i, round, h.nonce))...)
		origin = "empty"
	}
	hdr = append([]byte{}, m.Header...)
	want = append([]byte{}, m.Body...)
	return
}

func (h *hdrRun) sendMsg(i int, m *mangos.Message) bool {
	c := h.c
	call := mon.Go("SendMsg", func() (interface{}, error) { return nil, h.ctxs[i].SendMsg(m) })
	if !c.AwaitOrViolate("surveyor/send-stuck", fmt.Sprintf("ctx %d SendMsg", i), call.Done, mon.AwaitOpts{}) {
		return false
	}
	if _, err, _ := call.Result(); err != nil {
		c.Violate("surveyor/send-error", "ctx %d SendMsg returned %v", i, err)
		return false
	}
	return true
}

// recvMsg: one RecvMsg on context i that must return the answer with the given body.
func (h *hdrRun) recvMsg(i int, id uint32, wantBody []byte, origin, who string) bool {
	c := h.c
	call := mon.Go("RecvMsg", func() (interface{}, error) { m, err := h.ctxs[i].RecvMsg(); return m, err })
	if !c.AwaitOrViolate("surveyor/answer-not-delivered:hdr="+origin, fmt.Sprintf("ctx %d (%s) RecvMsg of the answer %q to its current survey %08x (survey time 1h, no deadline); the survey was sent with SendMsg, message header origin %s", i, who, wantBody, id, origin), call.Done, mon.AwaitOpts{}) {
		return false
	}
	v, err, _ := call.Result()
	if err != nil {
		c.Violate("surveyor/recv-error:"+err.Error(), "ctx %d (%s) RecvMsg returned %v with survey %08x in progress and its answer injected (header origin %s)", i, who, err, id, origin)
		return false
	}
	m := v.(*mangos.Message)
	if !bytes.Equal(m.Body, wantBody) {
		c.Violate("surveyor/delivered-noncurrent:hdr="+origin, "ctx %d (%s) RecvMsg returned %q, want %q — the only answer to its current survey %08x (header origin %s)", i, who, m.Body, wantBody, id, origin)
		return false
	}
	c.Count("responses_delivered", 1)
	h.pool = append(h.pool, &hdrPooled{m: m, from: i, id: id})
	return true
}

func c07Hdr(c *mon.Case, sp c07Spec) {
	h := &hdrRun{c: c, sp: sp, nonce: hx.Uniq("h"), used: map[uint32]bool{}}
	if sp.Tr != "" {
		c07HdrReal(c, sp, h)
		return
	}
	rig := hx.NewReqRig(c, "surveyor", 1, sp.NPipes)
	if c.Failed() || c.Undecided() {
		return
	}
	h.ctxs = append(h.ctxs, rig.Sock)
	for i := 1; i < sp.NCtx; i++ {
		cx, err := rig.Sock.OpenContext()
		if err != nil {
			c.Violate("surveyor/open-context-error", "%v", err)
			return
		}
		h.ctxs = append(h.ctxs, cx)
	}
	for i, cx := range h.ctxs {
		st := time.Hour
		if sp.Short[i] < 0 {
			st = 0 // no limit
		}
		if err := cx.SetOption(mangos.OptionSurveyTime, st); err != nil {
			panic(err)
		}
	}
	h.cur = make([]uint32, sp.NCtx)
	rnd := c.Rand
	pipes := rig.Pipes
	seen := make([]int, len(pipes))
	withHdr := 0
	for round := 0; round < sp.NOps && !c.Failed() && !c.Undecided(); round++ {
		i := rnd.Intn(sp.NCtx)
		m, origin, hdr, want := h.build(i, round)
		if !h.sendMsg(i, m) {
			return
		}
		prev := h.cur[i]
		h.cur[i] = 0
		// every connected respondent is sent the survey: one id, the body as handed in
		var id uint32
		for pn, p := range pipes {
			p := p
			n := seen[pn] + 1
			if !c.AwaitOrViolate("surveyor/survey-not-broadcast", fmt.Sprintf("survey %d of ctx %d (SendMsg, header origin %s) appearing on pipe %d", round, i, origin, pn), func() bool { return p.SentCount() >= n }, mon.AwaitOpts{}) {
				return
			}
			seen[pn] = n
			if p.SentCount() > n {
				c.Violate("surveyor/survey-sent-twice-on-one-connection", "pipe %d carries %d transmissions after %d surveys", pn, p.SentCount(), n)
				return
			}
			wire := p.SentLog()[n-1].Wire()
			if len(wire) < 4 || !bytes.Equal(wire[4:], want) {
				c.Violate("surveyor/survey-body-altered:hdr="+origin, "ctx %d SendMsg(Header=%x, Body=%q) went out on pipe %d as %x: want one 4-byte survey id followed by the body (the respondent takes the first word with the top bit set as the id and the rest as the body)", i, hdr, want, pn, wire)
				return
			}
			w := binary.BigEndian.Uint32(wire)
			if w&0x80000000 == 0 {
				c.Violate("surveyor/survey-id-without-top-bit:hdr="+origin, "ctx %d SendMsg(Header=%x) went out under id %08x", i, hdr, w)
				return
			}
			if pn > 0 && w != id {
				c.Violate("surveyor/survey-id-differs-between-connections", "survey %d of ctx %d sent as %08x on pipe %d and %08x on pipe 0", round, i, w, pn, id)
				return
			}
			id = w
			c.Count("survey_transmissions_checked", 1)
		}
		if h.used[id] {
			c.Violate("surveyor/survey-id-reused:hdr="+origin, "ctx %d SendMsg(Header=%x): the survey went out under id %08x, which an earlier survey of this socket used (an answer to either is taken for the other)", i, hdr, id)
			return
		}
		h.used[id] = true
		h.cur[i] = id
		c.Count("surveys_sent", 1)
		c.Count("hdr_surveys_"+origin, 1)
		if len(hdr) > 0 {
			withHdr++
		}
		// answers.  First, on one pipe, answers to the ids that were in the header (first and
		// last word) and to the survey this one abandoned; then the answer to the new id.
		p := pipes[rnd.Intn(len(pipes))]
		type exp struct {
			ctx  int
			id   uint32
			body []byte
		}
		var others []exp
		var cand []uint32
		if len(hdr) >= 4 {
			cand = append(cand, binary.BigEndian.Uint32(hdr), binary.BigEndian.Uint32(hdr[len(hdr)-4:]))
		}
		if prev != 0 {
			cand = append(cand, prev)
		}
		for n, w := range cand {
			if w == id || (n == 1 && w == cand[0]) {
				continue
			}
			h.ser++
			body := []byte(fmt.Sprintf("A|%d|%s|", h.ser, h.nonce))
			owner := -1
			for j, cj := range h.cur {
				if cj == w && cj != 0 {
					owner = j
				}
			}
			p.Inject(hx.Cat(hx.Be32(w), body))
			if owner >= 0 {
				others = append(others, exp{owner, w, body})
				c.Count("injected_header-id-current-elsewhere", 1)
			} else {
				c.Count("injected_header-id-not-current", 1)
			}
		}
		h.ser++
		body := []byte(fmt.Sprintf("A|%d|%s|", h.ser, h.nonce))
		p.Inject(hx.Cat(hx.Be32(id), body))
		c.Count("injected_correct", 1)
		if !rig.Drained(pipes...) {
			return
		}
		// the sender gets exactly the answer to its new survey (anything accepted for it before
		// that on the same connection would come out first); the owners of the other ids theirs
		if !h.recvMsg(i, id, body, origin, "sender") {
			return
		}
		for _, e := range others {
			if !h.recvMsg(e.ctx, e.id, e.body, origin, "owner of the id in the header") {
				return
			}
		}
		h.arr += origin[:1]
		if len(hdr) > 0 {
			h.arr += fmt.Sprint(len(hdr))
		}
	}
	if c.Failed() || c.Undecided() {
		return
	}
	if withHdr > 0 {
		c.Nontrivial()
	}
	c.Sig("hdr|%d|%d|%s", sp.NCtx, sp.NPipes, h.arr)
}

// c07HdrReal: the same situation with a real respondent socket.
func c07HdrReal(c *mon.Case, sp c07Spec, h *hdrRun) {
	resp := hx.MustSock(c, "respondent")
	surv := hx.MustSock(c, "surveyor")
	w := hx.WatchPipes(resp)
	if err := surv.SetOption(mangos.OptionSurveyTime, time.Hour); err != nil {
		panic(err)
	}
	if _, _, err := hx.Connect(resp, surv, sp.Tr); err != nil {
		c.Inconclusive("connect over %s: %v", sp.Tr, err)
		return
	}
	if !hx.WaitAttached(c, w, 1, "surveyor") {
		return
	}
	h.ctxs = append(h.ctxs, surv)
	for i := 1; i < sp.NCtx; i++ {
		cx, err := surv.OpenContext()
		if err != nil {
			c.Violate("surveyor/open-context-error", "%v", err)
			return
		}
		if err := cx.SetOption(mangos.OptionSurveyTime, time.Hour); err != nil {
			panic(err)
		}
		h.ctxs = append(h.ctxs, cx)
	}
	h.cur = make([]uint32, sp.NCtx)
	rnd := c.Rand
	withHdr := 0
	for round := 0; round < sp.NOps && !c.Failed() && !c.Undecided(); round++ {
		i := rnd.Intn(sp.NCtx)
		m, origin, hdr, want := h.build(i, round)
		if !h.sendMsg(i, m) {
			return
		}
		c.Count("surveys_sent", 1)
		c.Count("hdr_surveys_"+origin, 1)
		rc := mon.Go("Recv", func() (interface{}, error) { b, err := resp.Recv(); return b, err })
		if !c.AwaitOrViolate("surveyor/survey-not-received-by-respondent:hdr="+origin, fmt.Sprintf("the respondent (%s) receiving survey %d of ctx %d (SendMsg, Header=%x)", sp.Tr, round, i, hdr), rc.Done, mon.AwaitOpts{}) {
			return
		}
		v, err, _ := rc.Result()
		if err != nil {
			c.Inconclusive("respondent Recv: %v", err)
			return
		}
		if !bytes.Equal(v.([]byte), want) {
			c.Violate("surveyor/survey-body-altered:hdr="+origin, "ctx %d SendMsg(Header=%x, Body=%q): the respondent received %q", i, hdr, want, v)
			return
		}
		h.ser++
		body := []byte(fmt.Sprintf("A|%d|%s|", h.ser, h.nonce))
		if err := resp.Send(body); err != nil {
			c.Inconclusive("respondent Send: %v", err)
			return
		}
		// each answer reaches the surveyor context that asked
		if !h.recvMsg(i, 0, body, origin, "sender") {
			return
		}
		if len(hdr) > 0 {
			withHdr++
		}
		h.arr += origin[:1]
	}
	if c.Failed() || c.Undecided() {
		return
	}
	// nobody else was handed anything: every other context's survey (if it has one) is still in
	// progress with nothing queued, so a Recv with a deadline ends with the deadline, and a
	// context that never asked fails with the protocol-state error
	for j, cx := range h.ctxs {
		if err := cx.SetOption(mangos.OptionRecvDeadline, 10*time.Millisecond); err != nil {
			panic(err)
		}
		j, cx := j, cx
		k := mon.Go("RecvMsg", func() (interface{}, error) { m, err := cx.RecvMsg(); return m, err })
		if !c.AwaitOrViolate("surveyor/recv-stuck", fmt.Sprintf("ctx %d RecvMsg with a 10ms deadline", j), k.Done, mon.AwaitOpts{MaxTimer: 10 * time.Millisecond}) {
			return
		}
		if v, err, _ := k.Result(); err == nil {
			c.Violate("surveyor/delivered-unasked-answer", "ctx %d RecvMsg returned %q after every answer had already been received by the context that asked", j, v.(*mangos.Message).Body)
			return
		}
	}
	if withHdr > 0 {
		c.Nontrivial()
	}
	c.Sig("hdr-real|%s|%d|%s", sp.Tr, sp.NCtx, h.arr)
}
