//go:build verif

package c07

import (
	"fmt"
	"time"

	"go.nanomsg.org/mangos/v3"

	"verifharness/hx"
	"verifharness/mon"
)

// c07Retime: the SurveyTime option is changed while a survey is outstanding — raised for the next,
// longer survey, lowered, set to "no limit", or set again to the same value; on the surveying
// object itself (socket or context), or on the socket / another context while a context surveys.
// The survey time of a survey is the one it was sent with: the running survey still ends that long
// after its Send (not earlier; a Recv waiting on it is ended by then and does not block on; answers
// arriving afterwards are not delivered), and a survey sent with a long time is not cut short by a
// later, smaller option value.  A second survey then abandons the first as usual.
//
// variants:
//   - parked: SetOption, then a Recv (nothing queued) that the expiry has to end
//   - parked-first: the Recv is parked before the option is changed
//   - late: nobody is in Recv; an answer arrives well after the original survey time
func c07Retime(c *mon.Case, sp c07Spec) {
	rig := hx.NewReqRig(c, "surveyor", 3, sp.NPipes) // 0: the socket, 1 and 2: contexts
	if c.Failed() || c.Undecided() {
		return
	}
	si := sp.NCtx - 1 // the surveying object
	ti := si          // the object whose option is changed
	switch sp.Via {
	case "socket":
		ti = 0
	case "other":
		ti = 2
	}
	cx := rig.Ctxs[si]
	T1 := time.Hour
	if sp.T1 > 0 {
		T1 = time.Duration(sp.T1) * time.Millisecond
	}
	nv := time.Duration(sp.New) * time.Millisecond
	if sp.New < 0 {
		nv = 0
	}
	rig.SetAll(mangos.OptionSurveyTime, T1)
	rig.SetAll(mangos.OptionRecvDeadline, time.Duration(0))
	const tag = ":survey-time-changed-mid-survey"
	pipes := rig.LivePipes()
	serial := 0
	answer := func(id uint32) int {
		serial++
		pipes[c.Rand.Intn(len(pipes))].Inject(hx.ReplyWire(id, serial))
		return serial
	}

	// survey k: Send, broadcast on every connection, the id it went out with
	survey := func(k int) (id uint32, t0, tSent time.Duration, ok bool) {
		call := mon.Go("Send", func() (interface{}, error) { return nil, cx.Send(rig.ReqBody(si, k)) })
		if !c.AwaitOrViolate("surveyor/send-stuck", fmt.Sprintf("survey %d Send", k), call.Done, mon.AwaitOpts{}) {
			return
		}
		_, err, ended := call.Result()
		if err != nil {
			c.Violate("surveyor/send-error", "survey %d Send returned %v", k, err)
			return
		}
		txs, okb := rig.AwaitTx(si, k, len(pipes), 0, "surveyor/survey-not-broadcast")
		if !okb {
			return
		}
		for _, t := range txs {
			if t.ID != txs[0].ID {
				c.Violate("surveyor/survey-id-differs-between-connections", "survey %d sent as id %08x and %08x", k, txs[0].ID, t.ID)
				return
			}
		}
		c.Count("surveys_sent", 1)
		return txs[0].ID, call.Started, ended, true
	}
	recvGo := func() *mon.Call {
		return mon.Go("Recv", func() (interface{}, error) { b, err := cx.Recv(); return b, err })
	}

	id1, t0, tSent, ok := survey(1)
	if !ok {
		return
	}
	var rk *mon.Call
	if sp.Variant == "parked-first" {
		rk = recvGo()
		if !rk.ParkedIn("RecvMsg") && !rk.Done() {
			c.Inconclusive("Recv not observed parked")
			return
		}
	}
	if err := rig.Ctxs[ti].SetOption(mangos.OptionSurveyTime, nv); err != nil {
		c.Violate("surveyor/option-rejected", "SetOption(SurveyTime, %v) with a survey outstanding: %v", nv, err)
		return
	}
	tSet := mon.Now()
	c.Count("survey_time_changes_mid_survey", 1)
	c.Logf("survey %08x sent with survey time %v at [%v,%v]; option on object %d set to %v at %v (surveying object %d)", id1, T1, t0, tSent, ti, nv, tSet, si)
	if sp.Variant == "parked" {
		rk = recvGo()
	}
	what := fmt.Sprintf("survey sent with survey time %v, option then set to %v on %s", T1, nv, map[bool]string{true: "the surveying object", false: "another object of the socket"}[ti == si])

	if T1 < time.Hour {
		// ---- the running survey ends T1 after its Send, whatever the option says now ----
		if rk != nil {
			if !c.AwaitOrViolate("surveyor/recv-stuck"+tag, "Recv (nothing queued) being ended by the expiry of the running survey; "+what, rk.Done, mon.AwaitOpts{MaxTimer: T1}) {
				return
			}
			v, err, ended := rk.Result()
			switch {
			case err == nil:
				c.Violate("surveyor/delivered-uninjected", "Recv returned %q, nothing was injected", v)
				return
			case err != mangos.ErrProtoState:
				c.Violate("surveyor/recv-error:"+err.Error(), "Recv waiting for the survey to expire returned %v, want ErrProtoState; %s", err, what)
				return
			case ended < t0+T1:
				c.Violate("surveyor/expired-early"+tag, "Recv returned ErrProtoState %v after Send was invoked; %s", ended-t0, what)
				return
			}
			if gap := ended - tSent; gap > 10*T1 {
				if mon.UpperBoundExceeded(gap, T1) {
					c.Violate("surveyor/expired-late"+tag, "the survey ended (Recv returned ErrProtoState) %v after Send had returned, more than ten times its survey time; %s", gap, what)
				} else {
					c.Inconclusive("expiry observed %v after Send returned (survey time %v) on a noisy scheduler", gap, T1)
				}
				return
			}
			c.Count("expiries_observed", 1)
		} else {
			for d := tSent + 3*T1 - mon.Now(); d > 0; d = tSent + 3*T1 - mon.Now() {
				mon.Sleep(d)
			}
		}
		// an answer arrives after the original survey time: not delivered, and Recv does not wait
		answer(id1)
		if !rig.Drained(pipes...) {
			return
		}
		late := mon.Now() - tSent
		k := recvGo()
		if !c.AwaitOrViolate("surveyor/recv-after-expiry-blocked"+tag, fmt.Sprintf("Recv issued %v after Send returned; %s", late, what), k.Done, mon.AwaitOpts{}) {
			return
		}
		v, err, _ := k.Result()
		if err == nil {
			c.Violate("surveyor/delivered-after-expiry"+tag, "an answer injected %v after Send returned was delivered (%q); %s", late, v, what)
			return
		}
		if err != mangos.ErrProtoState {
			c.Violate("surveyor/recv-after-expiry-error", "Recv after expiry returned %v, want ErrProtoState", err)
			return
		}
		c.Count("after_expiry_probes", 1)
	} else {
		// ---- a survey sent with a long survey time is not cut short by the smaller value ----
		mon.Sleep(3 * nv)
		sn := answer(id1)
		if !rig.Drained(pipes...) {
			return
		}
		if rk == nil {
			rk = recvGo()
		}
		if !c.AwaitOrViolate("surveyor/recv-stuck"+tag, "Recv of an answer to the running survey; "+what, rk.Done, mon.AwaitOpts{MaxTimer: nv}) {
			return
		}
		v, err, ended := rk.Result()
		switch {
		case err == mangos.ErrProtoState:
			c.Violate("surveyor/expired-early"+tag, "Recv returned ErrProtoState %v after Send was invoked; %s", ended-t0, what)
			return
		case err != nil:
			c.Violate("surveyor/recv-error:"+err.Error(), "Recv returned %v with an answer to the running survey queued; %s", err, what)
			return
		}
		if got, okp := hx.ParseReplySerial(v.([]byte)); !okp || got != sn {
			c.Violate("surveyor/delivered-uninjected", "Recv returned %q, want the answer with serial %d", v, sn)
			return
		}
		c.Count("responses_delivered", 1)
	}

	// ---- the next survey abandons the first; answers to the first are stale now ----
	id2, t02, _, ok := survey(2)
	if !ok {
		return
	}
	if id2 == id1 {
		c.Violate("surveyor/id-reused", "two consecutive surveys carry the same id %08x", id1)
		return
	}
	T2 := T1 // the time survey 2 was sent with
	if ti == si {
		T2 = nv
	}
	p := pipes[c.Rand.Intn(len(pipes))]
	serial++
	p.Inject(hx.ReplyWire(id1, serial))
	serial++
	cur := serial
	p.Inject(hx.ReplyWire(id2, cur))
	if !rig.Drained(pipes...) {
		return
	}
	k2 := recvGo()
	mt := T2
	if mt >= time.Hour {
		mt = 0
	}
	if !c.AwaitOrViolate("surveyor/recv-stuck", "Recv of the answer to the second survey", k2.Done, mon.AwaitOpts{MaxTimer: mt}) {
		return
	}
	v, err, ended := k2.Result()
	switch {
	case err == nil:
		if got, okp := hx.ParseReplySerial(v.([]byte)); !okp || got != cur {
			c.Violate("surveyor/delivered-noncurrent:stale", "after the second survey (id %08x) Recv returned %q, an answer to the first (id %08x), injected before the answer to the second", id2, v, id1)
			return
		}
		c.Count("responses_delivered", 1)
	case err == mangos.ErrProtoState && T2 > 0 && T2 < time.Hour && ended >= t02+T2:
		c.Count("expiries_observed", 1) // the second survey (short time) ran out first
	case err == mangos.ErrProtoState:
		c.Violate("surveyor/expired-early", "second survey (sent with survey time %v): Recv returned ErrProtoState %v after its Send was invoked", T2, ended-t02)
		return
	default:
		c.Violate("surveyor/recv-error:"+err.Error(), "Recv of the answer to the second survey returned %v", err)
		return
	}
	rig.Scan()
	for _, b := range rig.Bad {
		c.Violate("surveyor/malformed-transmission", "%s", b)
	}
	c.Nontrivial()
	kind := "lowered"
	switch {
	case T1 == time.Hour:
		kind = "long-then-lowered"
	case nv == 0:
		kind = "no-limit"
	case nv == T1:
		kind = "same"
	case nv > T1 && nv < time.Hour:
		kind = "raised-finite"
	case nv > T1:
		kind = "raised"
	}
	c.Sig("retime|%s|%s|%s|%d", kind, sp.Variant, sp.Via, sp.NCtx)
}
