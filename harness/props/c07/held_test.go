//go:build verif

package c07

import (
	"bytes"
	"fmt"
	"strings"
	"time"

	"go.nanomsg.org/mangos/v3"

	"verifharness/hx"
	"verifharness/mon"
	"verifharness/vt"
)

// c07Held: a respondent that HOLDS surveys.  A raw RESPONDENT (an application on xrespondent, or
// the respondent side of a device) gets each survey from RecvMsg as a Message whose Header is the
// way back (connection, hops, survey id); it may keep several of them — received over one or
// several connections — and answer them later, in any order, by sending the held Message (or a
// new one carrying the held Message's Header as it is at that moment) with the answer as the body.
// A cooked RESPONDENT does the same with one context per held survey.  Receiving later surveys
// meanwhile is none of a held survey's business: each answer must go to the surveyor that asked it
// and name the survey it answers, so that the SURVEYOR can tell answers to its current survey from
// answers to earlier ones.
//
// Tr == "": the harness is every surveyor (vt pipes): it injects surveys (0..Hops device hops
// before the id) and reads the wire: each answer is transmitted once, on the connection its survey
// came in on, as that survey's backtrace followed by the answer.
// Tr != "": real cooked SURVEYOR sockets over a real transport, each sending 2-4 surveys one after
// the other (each abandons the one before) which the respondent receives and holds; then for each
// surveyor the late answers to its abandoned surveys are sent before the answer to its current
// one (same connection: FIFO + sentinel).  Recv on the surveyor must return the current answer.
type heldSurvey struct {
	k, pn int
	bt    []byte // backtrace as injected: hops + id
	m     *mangos.Message
	cx    heldCtx
	recvd int // number of surveys received when this one was (1-based)
}

type heldCtx interface {
	SendMsg(*mangos.Message) error
	RecvMsg() (*mangos.Message, error)
}

func c07Held(c *mon.Case, sp c07Spec) {
	if sp.Tr != "" {
		c07HeldReal(c, sp)
		return
	}
	raw := sp.Proto == "xrespondent"
	s := hx.MustSock(c, sp.Proto)
	nonce := hx.Uniq("h")
	name := hx.Uniq("c07h")
	L := vt.L(name)
	c.Cleanup(func() { vt.Forget(name) })
	if err := s.Listen(vt.Addr(name)); err != nil {
		c.Inconclusive("setup: %v", err)
		return
	}
	w := hx.WatchPipes(s)
	np := sp.NPipes
	var peers []*vt.Pipe
	for i := 0; i < np; i++ {
		peers = append(peers, L.Connect())
	}
	if !hx.WaitAttached(c, w, np, "surveyors") {
		return
	}
	rnd := c.Rand
	tag := ":cooked"
	if raw {
		tag = ":raw"
	}
	var all, held []*heldSurvey
	lastOn := make([]int, np) // per connection: number of surveys received when its latest one was
	seen := make([]int, np)   // per connection: transmissions accounted for
	total := 0
	nrecvd := 0
	late, lateSameConn := 0, 0
	arr := ""

	// answer sends the answer to h and checks where and how it went out.
	answer := func(h *heldSurvey, how string) bool {
		ans := []byte(fmt.Sprintf("A|%d|%s|", h.k, nonce))
		var m *mangos.Message
		switch {
		case !raw:
			m = mangos.NewMessage(len(ans))
			m.Body = append(m.Body, ans...)
		case how == "copy":
			// a new message carrying the held message's header as it is now
			m = mangos.NewMessage(len(ans))
			m.Header = append(m.Header, h.m.Header...)
			m.Body = append(m.Body, ans...)
			h.m.Free()
		default:
			m = h.m
			m.Body = append(m.Body[:0], ans...)
		}
		h.m = nil
		what := fmt.Sprintf("answer to survey %d (backtrace %x, received %d-th over connection %d of %d; %d surveys received since, the latest over this connection being the %d-th; sent %s)",
			h.k, h.bt, h.recvd, h.pn, np, nrecvd-h.recvd, lastOn[h.pn], how)
		sk := mon.Go("SendMsg", func() (interface{}, error) { return nil, h.cx.SendMsg(m) })
		if !c.AwaitOrViolate("respondent/send-stuck"+tag, what+": SendMsg returning", sk.Done, mon.AwaitOpts{}) {
			return false
		}
		if _, err, _ := sk.Result(); err != nil {
			c.Violate("respondent/send-error"+tag+":"+err.Error(), "%s: SendMsg returned %v", what, err)
			return false
		}
		total++
		sum := func() int {
			n := 0
			for _, p := range peers {
				n += p.SentCount()
			}
			return n
		}
		if !c.AwaitOrViolate("respondent/answer-not-sent"+tag, what+" appearing on a connection", func() bool { return sum() >= total }, mon.AwaitOpts{}) {
			return false
		}
		want := hx.Cat(h.bt, ans)
		for pn, p := range peers {
			log := p.SentFrom(seen[pn])
			for _, tx := range log {
				seen[pn]++
				wire := tx.Wire()
				switch {
				case pn != h.pn:
					c.Violate("respondent/answer-reached-other-surveyor"+tag, "%s went out on connection %d as %x", what, pn, wire)
				case bytes.Equal(wire, want):
					c.Count("held_answers_checked_on_the_wire", 1)
				default:
					sig := "respondent/answer-altered" + tag
					for _, o := range all {
						if o != h && bytes.Equal(wire, hx.Cat(o.bt, ans)) {
							sig = "respondent/answer-carries-other-survey-id" + tag
							what += fmt.Sprintf(" [the backtrace is that of survey %d, received %d-th]", o.k, o.recvd)
						}
					}
					c.Violate(sig, "%s went out as %x, want %x", what, wire, want)
				}
			}
		}
		return !c.Failed()
	}

	for k := 0; k < sp.NOps && !c.Failed() && !c.Undecided(); k++ {
		pn := rnd.Intn(np)
		var bt []byte
		for h := rnd.Intn(sp.Hops + 1); h > 0; h-- {
			bt = append(bt, hx.Be32(rnd.Uint32()&0x7fffffff)...)
		}
		id := 0x80000000 | uint32(rnd.Intn(1<<23))<<8 | uint32(k+1)
		bt = append(bt, hx.Be32(id)...)
		body := []byte(fmt.Sprintf("Q|%d|%s|", k, nonce))
		h := &heldSurvey{k: k, pn: pn, bt: bt, cx: s}
		if !raw && k > 0 {
			cx, err := s.OpenContext()
			if err != nil {
				c.Inconclusive("OpenContext: %v", err)
				return
			}
			h.cx = cx
		}
		peers[pn].Inject(hx.Cat(bt, body))
		rk := mon.Go("RecvMsg", func() (interface{}, error) { m, err := h.cx.RecvMsg(); return m, err })
		what := fmt.Sprintf("%s receiving survey %d (backtrace %x) over connection %d of %d with %d surveys held", sp.Proto, k, bt, pn, np, len(held))
		if !c.AwaitOrViolate("respondent/survey-not-received"+tag, what, rk.Done, mon.AwaitOpts{}) {
			return
		}
		v, err, _ := rk.Result()
		if err != nil {
			c.Violate("respondent/recv-error"+tag+":"+err.Error(), "%s: RecvMsg returned %v", what, err)
			return
		}
		h.m = v.(*mangos.Message)
		if !bytes.Equal(h.m.Body, body) {
			c.Violate("respondent/survey-body-altered"+tag, "%s: RecvMsg returned Header=%x Body=%q, want body %q", what, h.m.Header, h.m.Body, body)
			return
		}
		nrecvd++
		h.recvd = nrecvd
		lastOn[pn] = nrecvd
		all = append(all, h)
		c.Count("surveys_received_by_respondent", 1)
		if !raw {
			h.m.Free() // the context keeps the way back
			h.m = nil
		}
		x := rnd.Intn(8)
		if k < 1 {
			x = 7
		}
		switch x {
		case 0:
			// answered at once
			arr += fmt.Sprintf("n%d", pn)
			if !answer(h, "at once") {
				return
			}
		case 1:
			// not answered
			arr += fmt.Sprintf("f%d", pn)
			if h.m != nil {
				h.m.Free()
				h.m = nil
			}
		default:
			arr += fmt.Sprintf("h%d", pn)
			held = append(held, h)
		}
		// now and then a held survey is answered between two surveys
		if len(held) > 1 && rnd.Intn(4) == 0 {
			n := rnd.Intn(len(held))
			o := held[n]
			held = append(held[:n:n], held[n+1:]...)
			how := []string{"held message", "copy"}[rnd.Intn(2)]
			if o.recvd < nrecvd {
				late++
				if lastOn[o.pn] > o.recvd {
					lateSameConn++
				}
			}
			arr += fmt.Sprintf("a%d", o.k)
			if !answer(o, how) {
				return
			}
		}
	}
	if c.Failed() || c.Undecided() {
		return
	}
	rnd.Shuffle(len(held), func(i, j int) { held[i], held[j] = held[j], held[i] })
	arr += "|"
	for _, o := range held {
		how := []string{"held message", "copy"}[rnd.Intn(2)]
		if o.recvd < nrecvd {
			late++
			if lastOn[o.pn] > o.recvd {
				lateSameConn++
			}
		}
		arr += fmt.Sprintf("a%d", o.k)
		if !answer(o, how) {
			return
		}
	}
	// nothing else went out
	for pn, p := range peers {
		if n := p.SentCount(); n != seen[pn] {
			c.Violate("respondent/unasked-transmission"+tag, "connection %d carries %d transmissions, %d answers were sent to it: %x", pn, n, seen[pn], p.SentFrom(seen[pn])[0].Wire())
		}
	}
	c.Count("late_answers_by_holding_respondent", late)
	c.Count("late_answers_after_a_later_survey_on_the_same_connection", lateSameConn)
	if lateSameConn > 0 {
		c.Nontrivial()
	}
	c.Sig("held|%s|%d|%d|%s", sp.Proto, np, sp.Hops, arr)
}

func c07HeldReal(c *mon.Case, sp c07Spec) {
	raw := sp.Proto == "xrespondent"
	resp := hx.MustSock(c, sp.Proto)
	w := hx.WatchPipes(resp)
	nonce := hx.Uniq("hr")
	np, R := sp.NPipes, sp.NOps
	var survs []mangos.Socket
	for j := 0; j < np; j++ {
		a := hx.MustSock(c, "surveyor")
		if err := a.SetOption(mangos.OptionSurveyTime, time.Hour); err != nil {
			panic(err)
		}
		if _, _, err := hx.Connect(resp, a, sp.Tr); err != nil {
			c.Inconclusive("connect over %s: %v", sp.Tr, err)
			return
		}
		survs = append(survs, a)
	}
	if !hx.WaitAttached(c, w, np, "surveyors") {
		return
	}
	rnd := c.Rand
	type heldR struct {
		j, r int
		m    *mangos.Message
		cx   heldCtx
	}
	heldBy := make([][]*heldR, np)
	first := true
	for r := 1; r <= R; r++ {
		for _, j := range rnd.Perm(np) {
			q := []byte(fmt.Sprintf("Q|%d|%d|%s|", j, r, nonce))
			a := survs[j]
			sk := mon.Go("Send", func() (interface{}, error) { return nil, a.Send(q) })
			if !c.AwaitOrViolate("surveyor/send-stuck", fmt.Sprintf("surveyor %d sending survey %d", j, r), sk.Done, mon.AwaitOpts{}) {
				return
			}
			if _, err, _ := sk.Result(); err != nil {
				c.Violate("surveyor/send-error", "surveyor %d Send of survey %d returned %v", j, r, err)
				return
			}
			h := &heldR{j: j, r: r, cx: resp}
			if !raw && !first {
				cx, err := resp.OpenContext()
				if err != nil {
					c.Inconclusive("OpenContext: %v", err)
					return
				}
				h.cx = cx
			}
			first = false
			rk := mon.Go("RecvMsg", func() (interface{}, error) { m, err := h.cx.RecvMsg(); return m, err })
			what := fmt.Sprintf("%s (holding %d surveys) receiving survey %d of surveyor %d of %d over %s", sp.Proto, (r-1)*np, r, j, np, sp.Tr)
			if !c.AwaitOrViolate("respondent/survey-not-received:real", what, rk.Done, mon.AwaitOpts{}) {
				return
			}
			v, err, _ := rk.Result()
			if err != nil {
				c.Violate("respondent/recv-error:real:"+err.Error(), "%s: RecvMsg returned %v", what, err)
				return
			}
			h.m = v.(*mangos.Message)
			if !bytes.Equal(h.m.Body, q) {
				c.Violate("respondent/survey-body-altered:real", "%s: RecvMsg returned Body=%q, want %q", what, h.m.Body, q)
				return
			}
			if !raw {
				h.m.Free()
				h.m = nil
			}
			heldBy[j] = append(heldBy[j], h)
			c.Count("surveys_received_by_respondent", 1)
		}
	}
	// Per surveyor: late answers to its abandoned surveys (any order), then the answer to the current
	// one; surveyors interleaved at random.
	next := make([][]*heldR, np)
	for j := 0; j < np; j++ {
		hs := heldBy[j]
		old := append([]*heldR{}, hs[:len(hs)-1]...)
		rnd.Shuffle(len(old), func(a, b int) { old[a], old[b] = old[b], old[a] })
		// some abandoned surveys are never answered
		if len(old) > 1 && rnd.Intn(3) == 0 {
			if old[0].m != nil {
				old[0].m.Free()
			}
			old = old[1:]
		}
		next[j] = append(old, hs[len(hs)-1])
	}
	lates := 0
	order := ""
	for {
		var live []int
		for j := 0; j < np; j++ {
			if len(next[j]) > 0 {
				live = append(live, j)
			}
		}
		if len(live) == 0 {
			break
		}
		j := live[rnd.Intn(len(live))]
		h := next[j][0]
		next[j] = next[j][1:]
		cls := "L"
		if h.r == R {
			cls = "A"
		} else {
			lates++
		}
		order += fmt.Sprintf("%s%d.%d", cls, j, h.r)
		ans := []byte(fmt.Sprintf("%s|%d|%d|%s|", cls, j, h.r, nonce))
		var m *mangos.Message
		if raw && rnd.Intn(2) == 0 {
			m = h.m
			m.Body = append(m.Body[:0], ans...)
		} else {
			m = mangos.NewMessage(len(ans))
			if raw {
				m.Header = append(m.Header, h.m.Header...)
				h.m.Free()
			}
			m.Body = append(m.Body, ans...)
		}
		h.m = nil
		sk := mon.Go("SendMsg", func() (interface{}, error) { return nil, h.cx.SendMsg(m) })
		what := fmt.Sprintf("%s answering held survey %d of surveyor %d (its current one is %d)", sp.Proto, h.r, j, R)
		if !c.AwaitOrViolate("respondent/send-stuck:real", what, sk.Done, mon.AwaitOpts{}) {
			return
		}
		if _, err, _ := sk.Result(); err != nil {
			c.Violate("respondent/send-error:real:"+err.Error(), "%s: SendMsg returned %v", what, err)
			return
		}
	}
	for j, a := range survs {
		a := a
		rk := mon.Go("Recv", func() (interface{}, error) { b, err := a.Recv(); return b, err })
		what := fmt.Sprintf("surveyor %d of %d (survey time one hour, current survey %d) receiving the answer to its current survey, sent by a %s over %s after late answers to surveys 1..%d it had held meanwhile (order of sends: %s)", j, np, R, sp.Proto, sp.Tr, R-1, order)
		if !c.AwaitOrViolate("surveyor/current-answer-not-delivered:held-by-"+sp.Proto, what, rk.Done, mon.AwaitOpts{}) {
			return
		}
		v, err, _ := rk.Result()
		if err != nil {
			c.Violate("surveyor/recv-error:"+err.Error(), "%s: Recv returned %v", what, err)
			return
		}
		b := v.([]byte)
		want := []byte(fmt.Sprintf("A|%d|%d|%s|", j, R, nonce))
		switch {
		case bytes.Equal(b, want):
			c.Count("responses_delivered", 1)
		case strings.HasPrefix(string(b), fmt.Sprintf("L|%d|", j)):
			c.Violate("surveyor/stale-delivered:held-by-"+sp.Proto, "%s: Recv returned %q, the answer to an abandoned survey", what, b)
		default:
			c.Violate("respondent/answer-reached-other-surveyor:real", "%s: Recv returned %q, want %q", what, b, want)
		}
	}
	if c.Failed() || c.Undecided() {
		return
	}
	c.Count("late_answers_by_holding_respondent", lates)
	c.Count("late_answers_after_a_later_survey_on_the_same_connection", lates)
	if lates > 0 {
		c.Nontrivial()
	}
	c.Sig("held-real|%s|%s|%d|%d|%s", sp.Proto, sp.Tr, np, R, order)
}
