//go:build verif

// Package hx holds helpers shared by the per-property test packages.
package hx

import (
	"crypto/ecdsa"
	"crypto/elliptic"
	crand "crypto/rand"
	"crypto/tls"
	"crypto/x509"
	"crypto/x509/pkix"
	"encoding/binary"
	"fmt"
	"math/big"
	"math/rand"
	"net"
	"os"
	"path/filepath"
	"runtime"
	"strings"
	"sync"
	"sync/atomic"
	"testing"
	"time"

	"go.nanomsg.org/mangos/v3"
	"go.nanomsg.org/mangos/v3/protocol/bus"
	"go.nanomsg.org/mangos/v3/protocol/pair"
	"go.nanomsg.org/mangos/v3/protocol/pair1"
	"go.nanomsg.org/mangos/v3/protocol/pub"
	"go.nanomsg.org/mangos/v3/protocol/pull"
	"go.nanomsg.org/mangos/v3/protocol/push"
	"go.nanomsg.org/mangos/v3/protocol/rep"
	"go.nanomsg.org/mangos/v3/protocol/req"
	"go.nanomsg.org/mangos/v3/protocol/respondent"
	"go.nanomsg.org/mangos/v3/protocol/star"
	"go.nanomsg.org/mangos/v3/protocol/sub"
	"go.nanomsg.org/mangos/v3/protocol/surveyor"
	"go.nanomsg.org/mangos/v3/protocol/xbus"
	"go.nanomsg.org/mangos/v3/protocol/xpair"
	"go.nanomsg.org/mangos/v3/protocol/xpair1"
	"go.nanomsg.org/mangos/v3/protocol/xpub"
	"go.nanomsg.org/mangos/v3/protocol/xpull"
	"go.nanomsg.org/mangos/v3/protocol/xpush"
	"go.nanomsg.org/mangos/v3/protocol/xrep"
	"go.nanomsg.org/mangos/v3/protocol/xreq"
	"go.nanomsg.org/mangos/v3/protocol/xrespondent"
	"go.nanomsg.org/mangos/v3/protocol/xstar"
	"go.nanomsg.org/mangos/v3/protocol/xsub"
	"go.nanomsg.org/mangos/v3/protocol/xsurveyor"
	_ "go.nanomsg.org/mangos/v3/transport/all"
	"go.nanomsg.org/mangos/v3/verifhooks"

	"verifharness/mon"
	_ "verifharness/vt"
)

var SockCtors = map[string]func() (mangos.Socket, error){
	"pair": pair.NewSocket, "xpair": xpair.NewSocket, "pair1": pair1.NewSocket, "xpair1": xpair1.NewSocket,
	"req": req.NewSocket, "xreq": xreq.NewSocket, "rep": rep.NewSocket, "xrep": xrep.NewSocket,
	"pub": pub.NewSocket, "xpub": xpub.NewSocket, "sub": sub.NewSocket, "xsub": xsub.NewSocket,
	"push": push.NewSocket, "xpush": xpush.NewSocket, "pull": pull.NewSocket, "xpull": xpull.NewSocket,
	"surveyor": surveyor.NewSocket, "xsurveyor": xsurveyor.NewSocket,
	"respondent": respondent.NewSocket, "xrespondent": xrespondent.NewSocket,
	"bus": bus.NewSocket, "xbus": xbus.NewSocket, "star": star.NewSocket, "xstar": xstar.NewSocket,
}

var AllProtos = []string{"pair", "xpair", "pair1", "xpair1", "req", "xreq", "rep", "xrep", "pub", "xpub", "sub", "xsub",
	"push", "xpush", "pull", "xpull", "surveyor", "xsurveyor", "respondent", "xrespondent", "bus", "xbus", "star", "xstar"}

// PeerOf gives a protocol that can talk to p (cooked peer).
var PeerOf = map[string]string{
	"pair": "pair", "xpair": "pair", "pair1": "pair1", "xpair1": "pair1",
	"req": "rep", "xreq": "rep", "rep": "req", "xrep": "req",
	"pub": "sub", "xpub": "sub", "sub": "pub", "xsub": "pub",
	"push": "pull", "xpush": "pull", "pull": "push", "xpull": "push",
	"surveyor": "respondent", "xsurveyor": "respondent", "respondent": "surveyor", "xrespondent": "surveyor",
	"bus": "bus", "xbus": "bus", "star": "star", "xstar": "star",
}

// MustSock opens a socket of the named protocol and closes it when the case ends.
func MustSock(c *mon.Case, name string) mangos.Socket {
	f, ok := SockCtors[name]
	if !ok {
		panic("unknown protocol " + name)
	}
	s, err := f()
	if err != nil {
		panic(err)
	}
	c.Cleanup(func() { s.Close() })
	return s
}

var uniqN atomic.Int64

// Uniq returns a process-unique token.
func Uniq(prefix string) string {
	return fmt.Sprintf("%s-%d-%d", prefix, os.Getpid(), uniqN.Add(1))
}

var tmpDirOnce sync.Once
var tmpDir string

// ScratchDir is a per-process scratch directory (under VERIF_TMP when the driver runs us).
func ScratchDir() string {
	tmpDirOnce.Do(func() {
		base := os.Getenv("VERIF_TMP")
		if base == "" {
			base = os.TempDir()
		}
		d, err := os.MkdirTemp(base, "vp")
		if err != nil {
			panic(err)
		}
		tmpDir = d
	})
	return tmpDir
}

// Main is the TestMain body of every property package (removes the scratch directory).
func Main(m *testing.M) {
	code := m.Run()
	if tmpDir != "" {
		os.RemoveAll(tmpDir)
	}
	os.Exit(code)
}

var Transports = []string{"inproc", "ipc", "tcp", "tls+tcp", "ws", "wss"}

// ListenAddr returns an address to Listen on for the transport (ephemeral where possible).
func ListenAddr(tr string) string {
	switch tr {
	case "inproc":
		return "inproc://" + Uniq("ip")
	case "ipc":
		// unix socket paths are limited to ~108 bytes
		d := ScratchDir()
		p := filepath.Join(d, fmt.Sprintf("s%d", uniqN.Add(1)))
		if len(p) > 100 {
			p = filepath.Join(os.TempDir(), Uniq("vpipc"))
		}
		return "ipc://" + p
	case "tcp":
		return "tcp://" + OwnIP() + ":0"
	case "tls+tcp":
		return "tls+tcp://" + OwnIP() + ":0"
	case "ws":
		return "ws://" + OwnIP() + ":0/" + Uniq("p")
	case "wss":
		return "wss://" + OwnIP() + ":0/" + Uniq("p")
	case "vt":
		return "vt://" + Uniq("vt")
	}
	panic("transport " + tr)
}

// OwnIP is a loopback address that belongs to this process alone (the whole of 127/8 is local on
// Linux).  Listeners made for a case bind it instead of 127.0.0.1, so that a dialer of another
// process on the machine (another shard of the check, another check) that is still redialling an
// ephemeral port it once knew can never reach them when the kernel hands that port number out
// again — a stray connection would otherwise be counted as traffic of the socket under test.
func OwnIP() string {
	ownIPOnce.Do(func() {
		pid := os.Getpid()
		ownIP = fmt.Sprintf("127.%d.%d.%d", 128+(pid>>15)&0x7f, (pid>>7)&0xff, 1+pid&0x7f)
		// fall back to the classic address where the range is not usable
		l, err := net.Listen("tcp", ownIP+":0")
		if err != nil {
			ownIP = "127.0.0.1"
			return
		}
		l.Close()
	})
	return ownIP
}

var (
	ownIPOnce sync.Once
	ownIP     string
)

func NeedsTLS(tr string) bool { return tr == "tls+tcp" || tr == "wss" }

var tlsOnce sync.Once
var srvTLS, cliTLS *tls.Config

// TlsConfigs returns a server and a client config sharing a throw-away CA.
func TlsConfigs() (*tls.Config, *tls.Config) {
	tlsOnce.Do(func() {
		caKey, _ := ecdsa.GenerateKey(elliptic.P256(), crand.Reader)
		caT := &x509.Certificate{SerialNumber: big.NewInt(1), Subject: pkix.Name{CommonName: "verif-ca"},
			NotBefore: time.Now().Add(-time.Hour), NotAfter: time.Now().Add(240 * time.Hour),
			IsCA: true, KeyUsage: x509.KeyUsageCertSign | x509.KeyUsageDigitalSignature, BasicConstraintsValid: true}
		caDER, _ := x509.CreateCertificate(crand.Reader, caT, caT, &caKey.PublicKey, caKey)
		caCert, _ := x509.ParseCertificate(caDER)
		key, _ := ecdsa.GenerateKey(elliptic.P256(), crand.Reader)
		t := &x509.Certificate{SerialNumber: big.NewInt(2), Subject: pkix.Name{CommonName: "127.0.0.1"},
			NotBefore: time.Now().Add(-time.Hour), NotAfter: time.Now().Add(240 * time.Hour),
			KeyUsage: x509.KeyUsageDigitalSignature, ExtKeyUsage: []x509.ExtKeyUsage{x509.ExtKeyUsageServerAuth, x509.ExtKeyUsageClientAuth},
			IPAddresses: []net.IP{net.ParseIP("127.0.0.1"), net.ParseIP(OwnIP())}, DNSNames: []string{"localhost"}}
		der, _ := x509.CreateCertificate(crand.Reader, t, caCert, &key.PublicKey, caKey)
		pool := x509.NewCertPool()
		pool.AddCert(caCert)
		srvTLS = &tls.Config{Certificates: []tls.Certificate{{Certificate: [][]byte{der}, PrivateKey: key}}, MinVersion: tls.VersionTLS12}
		cliTLS = &tls.Config{RootCAs: pool, ServerName: "127.0.0.1", MinVersion: tls.VersionTLS12}
	})
	return srvTLS, cliTLS
}

// Connect makes `srv` listen on the transport and `cli` dial it (synchronously).
// It returns the listener and dialer.
func Connect(srv, cli mangos.Socket, tr string) (mangos.Listener, mangos.Dialer, error) {
	var lo, do map[string]interface{}
	if NeedsTLS(tr) {
		s, c := TlsConfigs()
		lo = map[string]interface{}{mangos.OptionTLSConfig: s}
		do = map[string]interface{}{mangos.OptionTLSConfig: c}
	}
	l, err := srv.NewListener(ListenAddr(tr), lo)
	if err != nil {
		return nil, nil, fmt.Errorf("NewListener: %w", err)
	}
	if err := l.Listen(); err != nil {
		return nil, nil, fmt.Errorf("Listen: %w", err)
	}
	d, err := cli.NewDialer(l.Address(), do)
	if err != nil {
		return l, nil, fmt.Errorf("NewDialer(%s): %w", l.Address(), err)
	}
	if err := d.Dial(); err != nil {
		return l, d, fmt.Errorf("Dial(%s): %w", l.Address(), err)
	}
	return l, d, nil
}

// PipeWatch counts attach/detach events on a socket.
type PipeWatch struct {
	mu       sync.Mutex
	attached int
	detached int
	pipes    []mangos.Pipe
}

func WatchPipes(s mangos.Socket) *PipeWatch {
	w := &PipeWatch{}
	s.SetPipeEventHook(WatchPipesFunc(w))
	return w
}

// WatchPipesFunc returns the counting hook for w, for callers that install a hook of their own around it.
func WatchPipesFunc(w *PipeWatch) func(mangos.PipeEvent, mangos.Pipe) {
	return func(ev mangos.PipeEvent, p mangos.Pipe) {
		w.mu.Lock()
		switch ev {
		case mangos.PipeEventAttached:
			w.attached++
			w.pipes = append(w.pipes, p)
		case mangos.PipeEventDetached:
			w.detached++
		}
		w.mu.Unlock()
	}
}

// Pipes returns the pipes that attached so far.
func (w *PipeWatch) Pipes() []mangos.Pipe {
	w.mu.Lock()
	defer w.mu.Unlock()
	return append([]mangos.Pipe{}, w.pipes...)
}

func (w *PipeWatch) Attached() int { w.mu.Lock(); defer w.mu.Unlock(); return w.attached }
func (w *PipeWatch) Detached() int { w.mu.Lock(); defer w.mu.Unlock(); return w.detached }
func (w *PipeWatch) Live() int     { w.mu.Lock(); defer w.mu.Unlock(); return w.attached - w.detached }

// WaitAttached waits (stuck-detector backed) until n pipes have attached.
func WaitAttached(c *mon.Case, w *PipeWatch, n int, what string) bool {
	return c.AwaitOrViolate("harness:attach-stuck:"+what, "waiting for "+what+" to attach", func() bool { return w.Attached() >= n }, mon.AwaitOpts{MaxTimer: 200 * time.Millisecond})
}

// WaitDetached waits until n pipes have detached; false (no verdict) when that does not happen.
func WaitDetached(c *mon.Case, w *PipeWatch, n int, what string) bool {
	r := mon.Await(func() bool { return w.Detached() >= n }, mon.AwaitOpts{MaxTimer: 200 * time.Millisecond})
	if r.V != mon.Done {
		c.Logf("waiting for %s: %v", what, r.V)
	}
	return r.V == mon.Done
}

func Be32(v uint32) []byte { b := make([]byte, 4); binary.BigEndian.PutUint32(b, v); return b }

func Cat(bs ...[]byte) []byte {
	var out []byte
	for _, b := range bs {
		out = append(out, b...)
	}
	return out
}

// ---- yield points -----------------------------------------------------------

var yieldHits sync.Map // point -> *atomic.Int64

type YieldCfg struct {
	ProbGosched float64
	ProbSleep   float64
	MaxSleep    time.Duration
	// Message also perturbs the (very hot) points inside Message.Clone and Message.Free.
	Message bool
}

var yieldState atomic.Pointer[YieldCfg]
var yieldRnd = struct {
	sync.Mutex
	r *rand.Rand
}{r: rand.New(rand.NewSource(99))}

func init() {
	verifhooks.SetYield(func(point string) {
		v, _ := yieldHits.LoadOrStore(point, new(atomic.Int64))
		v.(*atomic.Int64).Add(1)
		cfg := yieldState.Load()
		if cfg == nil || (!cfg.Message && strings.HasPrefix(point, "message.")) {
			return
		}
		yieldRnd.Lock()
		x := yieldRnd.r.Float64()
		d := time.Duration(yieldRnd.r.Int63n(int64(cfg.MaxSleep) + 1))
		yieldRnd.Unlock()
		switch {
		case x < cfg.ProbSleep:
			time.Sleep(d)
		case x < cfg.ProbSleep+cfg.ProbGosched:
			for i := 0; i < 3; i++ {
				goschedYield()
			}
		}
	})
}

// SetYields turns schedule perturbation on (seeded) or off (nil cfg).
func SetYields(seed int64, cfg *YieldCfg) {
	yieldRnd.Lock()
	yieldRnd.r = rand.New(rand.NewSource(seed))
	yieldRnd.Unlock()
	yieldState.Store(cfg)
}

// YieldHitCount returns total hits and number of distinct points hit so far.
func YieldHitCount() (total int64, points int) {
	yieldHits.Range(func(k, v interface{}) bool {
		total += v.(*atomic.Int64).Load()
		points++
		return true
	})
	return
}

// LedgerCheck turns new ledger events into violations of prop (used by every
// property's cases: the ledger is always on).
func LedgerCheck(c *mon.Case) {
	snap := mangos.VerifLedger()
	if snap.NEvents > 0 {
		for _, e := range snap.Events {
			c.Violate("ledger:"+e.Kind, "message ledger event %s %s\n%s", e.Kind, e.Info, e.Stack)
		}
		mangos.VerifLedgerReset()
	}
}

func goschedYield() { runtime.Gosched() }

func NewRand(seed int64) *rand.Rand { return rand.New(rand.NewSource(seed)) }

// TLSConfigs is the documented name of TlsConfigs.
func TLSConfigs() (*tls.Config, *tls.Config) { return TlsConfigs() }
