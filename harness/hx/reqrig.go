//go:build verif

package hx

import (
	"bytes"
	"encoding/binary"
	"fmt"
	"sort"
	"sync"
	"time"

	"go.nanomsg.org/mangos/v3"

	"verifharness/mon"
	"verifharness/vt"
)

// CtxLike is the part of Socket/Context the REQ/SURVEYOR workloads use.
type CtxLike interface {
	Send([]byte) error
	Recv() ([]byte, error)
	SetOption(string, interface{}) error
	GetOption(string) (interface{}, error)
	Close() error
}

// reuseBuf is an application that reuses its send buffer: as soon as Send([]byte) has returned, the
// slice it passed is overwritten.  Send copies, so this is invisible to a correct library; a request
// or survey that is kept for (re)transmission as an alias of the caller's slice shows up as a
// transmission that is no longer the bytes that were sent (reported through ReqRig.Bad and the
// byte-identity oracles of the checks built on this rig).
type reuseBuf struct{ CtxLike }

func (a reuseBuf) Send(b []byte) error {
	err := a.CtxLike.Send(b)
	for i := range b {
		b[i] = 0xEE
	}
	return err
}

// WireTx is one request transmission observed on a vt pipe.
type WireTx struct {
	Ctx, K int
	ID     uint32
	Pipe   *vt.Pipe
	PipeN  int
	T      time.Duration
	Wire   []byte
}

// ReqRig is a REQ (or SURVEYOR) socket whose peers are all vt pipes held by the harness.
type ReqRig struct {
	C      *mon.Case
	Proto  string
	Sock   mangos.Socket
	L      *vt.ListenerCtl
	Watch  *PipeWatch
	Mu     sync.Mutex
	Pipes  []*vt.Pipe
	cursor map[*vt.Pipe]int
	Ctxs   []CtxLike
	Txs    []WireTx          // every transmission in observation order
	ByID   map[uint32][2]int // id -> (ctx,k)
	ConnT  map[*vt.Pipe]time.Duration // time taken just before each pipe was offered to the socket
	nonce  string
	Bad    []string // malformed transmissions
}

func NewReqRig(c *mon.Case, proto string, nctx, npipes int) *ReqRig {
	r := &ReqRig{C: c, Proto: proto, cursor: map[*vt.Pipe]int{}, ByID: map[uint32][2]int{}, nonce: Uniq("n")}
	r.Sock = MustSock(c, proto)
	r.Watch = WatchPipes(r.Sock)
	name := Uniq("req")
	r.L = vt.L(name)
	c.Cleanup(func() { vt.Forget(name) })
	if err := r.Sock.Listen(vt.Addr(name)); err != nil {
		panic(err)
	}
	r.Ctxs = append(r.Ctxs, reuseBuf{r.Sock})
	for i := 1; i < nctx; i++ {
		cx, err := r.Sock.OpenContext()
		if err != nil {
			panic(err)
		}
		r.Ctxs = append(r.Ctxs, reuseBuf{cx})
	}
	for i := 0; i < npipes; i++ {
		r.AddPipe()
	}
	return r
}

// AddPipe connects one more vt peer and waits until the socket attached it.
func (r *ReqRig) AddPipe() *vt.Pipe {
	n := r.Watch.Attached()
	t := mon.Now()
	p := r.L.Connect()
	r.Mu.Lock()
	if r.ConnT == nil {
		r.ConnT = map[*vt.Pipe]time.Duration{}
	}
	r.ConnT[p] = t
	r.Mu.Unlock()
	WaitAttached(r.C, r.Watch, n+1, "vt pipe")
	r.Mu.Lock()
	r.Pipes = append(r.Pipes, p)
	r.Mu.Unlock()
	return p
}

func (r *ReqRig) SetAll(opt string, v interface{}) {
	for _, cx := range r.Ctxs {
		if err := cx.SetOption(opt, v); err != nil {
			panic(fmt.Sprintf("SetOption(%s,%v): %v", opt, v, err))
		}
	}
}

// ReqBody builds the tagged request body for (ctx,k).
func (r *ReqRig) ReqBody(ctx, k int) []byte {
	return []byte(fmt.Sprintf("Q|%d|%d|%s|", ctx, k, r.nonce))
}

func (r *ReqRig) ParseBody(b []byte) (ctx, k int, ok bool) {
	var nonce string
	parts := bytes.Split(b, []byte("|"))
	if len(parts) < 4 || string(parts[0]) != "Q" {
		return 0, 0, false
	}
	if _, err := fmt.Sscanf(string(parts[1])+" "+string(parts[2]), "%d %d", &ctx, &k); err != nil {
		return 0, 0, false
	}
	nonce = string(parts[3])
	return ctx, k, nonce == r.nonce
}

// scan pulls new transmissions from all pipes' send logs.
func (r *ReqRig) Scan() []WireTx {
	r.Mu.Lock()
	defer r.Mu.Unlock()
	var fresh []WireTx
	for i, p := range r.Pipes {
		for _, s := range p.SentFrom(r.cursor[p]) {
			r.cursor[p] = s.Seq + 1
			w := s.Wire()
			if len(w) < 4 {
				r.Bad = append(r.Bad, fmt.Sprintf("pipe %d: transmission shorter than a request id: %x", i, w))
				continue
			}
			id := binary.BigEndian.Uint32(w)
			ctx, k, ok := r.ParseBody(w[4:])
			if !ok || id&0x80000000 == 0 {
				r.Bad = append(r.Bad, fmt.Sprintf("pipe %d: malformed transmission id=%08x body=%q", i, id, w[4:]))
				continue
			}
			tx := WireTx{Ctx: ctx, K: k, ID: id, Pipe: p, PipeN: i, T: s.T, Wire: w}
			r.Txs = append(r.Txs, tx)
			r.ByID[id] = [2]int{ctx, k}
			fresh = append(fresh, tx)
		}
	}
	return fresh
}

// TxsOf returns all transmissions seen so far for (ctx,k).
func (r *ReqRig) TxsOf(ctx, k int) []WireTx {
	r.Scan()
	r.Mu.Lock()
	defer r.Mu.Unlock()
	var out []WireTx
	for _, t := range r.Txs {
		if t.Ctx == ctx && t.K == k {
			out = append(out, t)
		}
	}
	sort.SliceStable(out, func(a, b int) bool { return out[a].T < out[b].T })
	return out
}

// AwaitTx waits until at least n transmissions of (ctx,k) are on the wire.
func (r *ReqRig) AwaitTx(ctx, k, n int, maxTimer time.Duration, sig string) ([]WireTx, bool) {
	var got []WireTx
	ok := r.C.AwaitOrViolate(sig, fmt.Sprintf("transmission #%d of request ctx=%d k=%d", n, ctx, k), func() bool {
		got = r.TxsOf(ctx, k)
		return len(got) >= n
	}, mon.AwaitOpts{MaxTimer: maxTimer})
	return got, ok
}

// Drained waits until the library took everything injected on p and its receiver is parked again.
func (r *ReqRig) Drained(ps ...*vt.Pipe) bool {
	return r.C.AwaitOrViolate("harness:drain-stuck", "pipe receivers draining injected messages", func() bool {
		for _, p := range ps {
			if cl, _, _ := p.Closed(); cl {
				continue
			}
			rw, _ := p.Waiters()
			if p.Pending() != 0 || rw == 0 {
				return false
			}
		}
		return true
	}, mon.AwaitOpts{})
}

func (r *ReqRig) LivePipes() []*vt.Pipe {
	r.Mu.Lock()
	defer r.Mu.Unlock()
	var out []*vt.Pipe
	for _, p := range r.Pipes {
		if cl, _, _ := p.Closed(); !cl {
			out = append(out, p)
		}
	}
	return out
}

// replyBody builds a reply wire body: id followed by a serial tag.
func ReplyWire(id uint32, serial int) []byte {
	return Cat(Be32(id), []byte(fmt.Sprintf("R|%d|", serial)))
}

func ParseReplySerial(b []byte) (int, bool) {
	var s int
	if !bytes.HasPrefix(b, []byte("R|")) {
		return 0, false
	}
	if _, err := fmt.Sscanf(string(b[2:]), "%d|", &s); err != nil {
		return 0, false
	}
	return s, true
}
