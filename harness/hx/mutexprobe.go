//go:build verif

package hx

import (
	"fmt"
	"reflect"
	"strings"
	"sync"
	"time"
	"unsafe"

	"verifharness/mon"
)

// FoundMutex is a lock reachable from a library object.
type FoundMutex struct {
	Path string
	M    *sync.Mutex
	RW   *sync.RWMutex
}

var (
	mutexT   = reflect.TypeOf(sync.Mutex{})
	rwmutexT = reflect.TypeOf(sync.RWMutex{})
)

// FindMutexes walks the object graph below the given library objects (sockets,
// dialers, listeners, pipes, contexts) with reflect+unsafe and returns every
// sync.Mutex / sync.RWMutex it reaches.  It follows pointers, interfaces,
// slices, arrays and maps, descends only into struct types declared in mangos
// packages, and keeps a visited set.  Call it at a quiescent point only (it
// reads library memory without synchronisation; never used in -race builds).
func FindMutexes(roots ...interface{}) []FoundMutex {
	ms, _ := findMutexes(roots...)
	return ms
}

func findMutexes(roots ...interface{}) ([]FoundMutex, int) {
	w := &walker{seen: map[visitKey]bool{}}
	for i, r := range roots {
		if r == nil {
			continue
		}
		w.walk(reflect.ValueOf(r), fmt.Sprintf("root%d(%T)", i, r), 0)
	}
	return w.out, w.Skipped
}

type visitKey struct {
	p uintptr
	t reflect.Type
}

type walker struct {
	seen    map[visitKey]bool
	out     []FoundMutex
	guards  []FoundMutex // locks declared in the structs on the path from the root to here
	Skipped int          // containers not looked into because their guards could not be taken
}

// guarded runs f while holding every lock on the current path (the locks the library itself holds
// when it changes a map or slice of these structs: the enclosing struct's own mutex or its owner's).
// Iterating a map that a library goroutine is writing is a fatal runtime error, and "quiescent" can
// end at any moment (a timer fires, a peer's close is noticed), so containers are only read under
// their guards; the guards are taken with TryLock only, so the probe can never deadlock with the
// library.  If they cannot be taken within ~50 ms the container is skipped (counted).
func (w *walker) guarded(f func()) bool {
	for attempt := 0; attempt < 50; attempt++ {
		var got []FoundMutex
		ok := true
		for _, g := range w.guards {
			if !g.lock() {
				ok = false
				break
			}
			got = append(got, g)
		}
		if ok {
			f()
		}
		for i := len(got) - 1; i >= 0; i-- {
			got[i].unlock()
		}
		if ok {
			return true
		}
		time.Sleep(time.Millisecond)
	}
	w.Skipped++
	return false
}

func isMangosType(t reflect.Type) bool {
	return strings.HasPrefix(t.PkgPath(), "go.nanomsg.org/mangos/v3")
}

func (w *walker) walk(v reflect.Value, path string, depth int) {
	if depth > 40 || !v.IsValid() {
		return
	}
	switch v.Kind() {
	case reflect.Interface:
		if !v.IsNil() {
			w.walk(v.Elem(), path, depth+1)
		}
	case reflect.Ptr:
		if v.IsNil() {
			return
		}
		et := v.Type().Elem()
		if et.Kind() != reflect.Struct {
			return
		}
		k := visitKey{v.Pointer(), et}
		if w.seen[k] {
			return
		}
		w.seen[k] = true
		if et == mutexT {
			w.out = append(w.out, FoundMutex{Path: path, M: (*sync.Mutex)(unsafe.Pointer(v.Pointer()))})
			return
		}
		if et == rwmutexT {
			w.out = append(w.out, FoundMutex{Path: path, RW: (*sync.RWMutex)(unsafe.Pointer(v.Pointer()))})
			return
		}
		if !isMangosType(et) {
			return
		}
		w.walkStruct(reflect.NewAt(et, unsafe.Pointer(v.Pointer())).Elem(), path, depth+1)
	case reflect.Struct:
		// a struct value reached through an interface or map value is a copy: its locks are not the live ones
		if v.CanAddr() {
			w.walkStruct(v, path, depth+1)
		}
	case reflect.Slice, reflect.Array:
		if v.Kind() == reflect.Slice && v.IsNil() {
			return
		}
		ek := v.Type().Elem().Kind()
		if ek != reflect.Ptr && ek != reflect.Interface && ek != reflect.Struct {
			return
		}
		var elems []reflect.Value
		w.guarded(func() {
			for i := 0; i < v.Len() && i < 4096; i++ {
				elems = append(elems, v.Index(i))
			}
		})
		for i, e := range elems {
			w.walk(e, fmt.Sprintf("%s[%d]", path, i), depth+1)
		}
	case reflect.Map:
		if v.IsNil() {
			return
		}
		var kv []reflect.Value
		w.guarded(func() {
			it := v.MapRange()
			for n := 0; it.Next() && n < 4096; n++ {
				kv = append(kv, it.Key(), it.Value())
			}
		})
		for i := 0; i+1 < len(kv); i += 2 {
			w.walk(kv[i], path+"{key}", depth+1)
			w.walk(kv[i+1], path+"{val}", depth+1)
		}
	}
}

func (w *walker) walkStruct(v reflect.Value, path string, depth int) {
	t := v.Type()
	if t == mutexT {
		w.out = append(w.out, FoundMutex{Path: path, M: (*sync.Mutex)(unsafe.Pointer(v.UnsafeAddr()))})
		return
	}
	if t == rwmutexT {
		w.out = append(w.out, FoundMutex{Path: path, RW: (*sync.RWMutex)(unsafe.Pointer(v.UnsafeAddr()))})
		return
	}
	if !isMangosType(t) {
		return
	}
	// this struct's own locks guard its containers (and those of the structs below it that have none)
	nguards := len(w.guards)
	defer func() { w.guards = w.guards[:nguards] }()
	if v.CanAddr() {
		for i := 0; i < t.NumField(); i++ {
			f := v.Field(i)
			switch f.Type() {
			case mutexT:
				w.guards = append(w.guards, FoundMutex{M: (*sync.Mutex)(unsafe.Pointer(f.UnsafeAddr()))})
			case rwmutexT:
				w.guards = append(w.guards, FoundMutex{RW: (*sync.RWMutex)(unsafe.Pointer(f.UnsafeAddr()))})
			}
		}
	}
	for i := 0; i < t.NumField(); i++ {
		f := v.Field(i)
		ft := t.Field(i)
		// make unexported fields readable
		if f.CanAddr() {
			f = reflect.NewAt(f.Type(), unsafe.Pointer(f.UnsafeAddr())).Elem()
		}
		name := path + "." + ft.Name
		switch f.Kind() {
		case reflect.Struct:
			if f.Type() == mutexT || f.Type() == rwmutexT || isMangosType(f.Type()) {
				w.walkStruct(f, name, depth+1)
			}
		case reflect.Ptr, reflect.Interface, reflect.Slice, reflect.Array, reflect.Map:
			w.walk(f, name, depth+1)
		}
	}
}

func (m FoundMutex) lock() bool {
	if m.M != nil {
		return m.M.TryLock()
	}
	return m.RW.TryLock()
}

func (m FoundMutex) unlock() {
	if m.M != nil {
		m.M.Unlock()
	} else {
		m.RW.Unlock()
	}
}

// tryMutex reports whether the lock could be taken (and released it again).
func (m FoundMutex) try() bool {
	if m.M != nil {
		if m.M.TryLock() {
			m.M.Unlock()
			return true
		}
		return false
	}
	if m.RW.TryLock() {
		m.RW.Unlock()
		return true
	}
	return false
}

// ProbeLocks finds the locks below roots and checks that each can be taken.
// A lock that cannot be taken on 2000 attempts over >= 2 s while the whole
// process is quiescent (all goroutines parked, identical over 3 samples) is a
// leaked or wedged lock: violation sigPrefix+<path>.  Returns the number of
// locks probed.
func ProbeLocks(c *mon.Case, sigPrefix, what string, roots ...interface{}) int {
	ms, skipped := findMutexes(roots...)
	if skipped > 0 {
		c.Count("probe_containers_skipped_guard_busy", skipped)
	}
	var held []FoundMutex
	for _, m := range ms {
		if !m.try() {
			held = append(held, m)
		}
	}
	if len(held) == 0 {
		return len(ms)
	}
	var still []FoundMutex
	for _, m := range held {
		ok := false
		for i := 0; i < 2000 && !ok; i++ {
			if m.try() {
				ok = true
				break
			}
			time.Sleep(time.Millisecond)
		}
		if !ok {
			still = append(still, m)
		}
	}
	if len(still) == 0 {
		return len(ms)
	}
	// quiescent?
	q0 := mon.Sample()
	quiet := q0.AllParked
	for i := 0; i < 2 && quiet; i++ {
		time.Sleep(200 * time.Millisecond)
		q := mon.Sample()
		quiet = q.AllParked && q.Sigs == q0.Sigs
	}
	for _, m := range still {
		if m.try() {
			continue
		}
		if quiet {
			c.Violate(sigPrefix+stripIdx(m.Path), "%s: lock %s stays held although every goroutine is parked (leaked or wedged lock):\n%s", what, m.Path, mon.RenderGs(q0.Gs))
		} else {
			c.Inconclusive("%s: lock %s busy for 2 s but the process is still active", what, m.Path)
		}
	}
	return len(ms)
}

// stripIdx removes "rootN(" prefixes and indexes so signatures are stable.
func stripIdx(p string) string {
	var b strings.Builder
	skip := false
	for _, r := range p {
		switch {
		case r == '[':
			skip = true
			b.WriteString("[]")
		case r == ']':
			skip = false
		case !skip:
			b.WriteRune(r)
		}
	}
	s := b.String()
	if i := strings.Index(s, "("); strings.HasPrefix(s, "root") && i > 0 {
		s = s[i:]
	}
	return s
}
