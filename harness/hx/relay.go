//go:build verif

package hx

import (
	"fmt"
	"net"
	"runtime"
	"strings"
	"sync"
	"time"

	"go.nanomsg.org/mangos/v3"
)

// ChopRelay puts a byte-level relay in front of a listening stream endpoint (tcp, tls+tcp, ws, wss,
// ipc) and returns the URL to dial instead, plus a function that tears the relay down.  The relay
// forwards both directions unchanged but re-segments them: what one side wrote in one piece reaches the
// other side in pieces whose sizes come from the PRNG (often 1-9 bytes, so that length prefixes, SP
// headers, TLS records and websocket frame headers arrive split), with an occasional yield or 50 µs pause
// between pieces.  A byte stream has no message boundaries, so nothing a correct peer does may depend on
// how it is cut up; real networks cut it up all the time, loopback never does.
func ChopRelay(url string, seed int64) (string, func(), error) {
	i := strings.Index(url, "://")
	if i < 0 {
		return "", nil, fmt.Errorf("relay: bad url %q", url)
	}
	scheme, rest := url[:i], url[i+3:]
	var ln net.Listener
	var target, netw, out string
	var err error
	if scheme == "ipc" {
		netw, target = "unix", rest
		p := strings.TrimPrefix(ListenAddr("ipc"), "ipc://")
		if ln, err = net.Listen("unix", p); err != nil {
			return "", nil, err
		}
		out = "ipc://" + p
	} else {
		hostport, path := rest, ""
		if j := strings.Index(rest, "/"); j >= 0 {
			hostport, path = rest[:j], rest[j:]
		}
		netw, target = "tcp", hostport
		if ln, err = net.Listen("tcp", OwnIP()+":0"); err != nil {
			return "", nil, err
		}
		out = scheme + "://" + ln.Addr().String() + path
	}
	var mu sync.Mutex
	var conns []net.Conn
	closed := false
	track := func(c net.Conn) bool {
		mu.Lock()
		defer mu.Unlock()
		if closed {
			c.Close()
			return false
		}
		conns = append(conns, c)
		return true
	}
	pump := func(dst, src net.Conn, rnd interface{ Intn(int) int }) {
		buf := make([]byte, 64<<10)
		for {
			n, err := src.Read(buf)
			b := buf[:n]
			for len(b) > 0 {
				var k int
				switch x := rnd.Intn(10); {
				case x < 5:
					k = 1 + rnd.Intn(9)
				case x < 7:
					k = 1 + rnd.Intn(300)
				case x < 9:
					k = 1 + rnd.Intn(5000)
				default:
					k = len(b)
				}
				if k > len(b) {
					k = len(b)
				}
				if _, werr := dst.Write(b[:k]); werr != nil {
					src.Close()
					return
				}
				b = b[k:]
				switch rnd.Intn(40) {
				case 0:
					time.Sleep(50 * time.Microsecond)
				case 1, 2, 3:
					runtime.Gosched()
				}
			}
			if err != nil {
				// pass the end of the stream on
				if cw, ok := dst.(interface{ CloseWrite() error }); ok {
					cw.CloseWrite()
				} else {
					dst.Close()
				}
				return
			}
		}
	}
	go func() {
		for k := int64(0); ; k++ {
			a, err := ln.Accept()
			if err != nil {
				return
			}
			if !track(a) {
				return
			}
			b, err := net.Dial(netw, target)
			if err != nil {
				a.Close()
				continue
			}
			if !track(b) {
				a.Close()
				return
			}
			go pump(b, a, NewRand(seed+2*k))
			go pump(a, b, NewRand(seed+2*k+1))
		}
	}()
	stop := func() {
		mu.Lock()
		closed = true
		cs := conns
		mu.Unlock()
		ln.Close()
		for _, c := range cs {
			c.Close()
		}
	}
	return out, stop, nil
}

// ConnectChopped is Connect with the dialer going through a ChopRelay (stream transports only; inproc
// connects directly).  The returned function tears the relay down.
func ConnectChopped(srv, cli mangos.Socket, tr string, seed int64) (func(), error) {
	if tr == "inproc" {
		_, _, err := Connect(srv, cli, tr)
		return func() {}, err
	}
	var lo, do map[string]interface{}
	if NeedsTLS(tr) {
		s, c := TlsConfigs()
		lo = map[string]interface{}{mangos.OptionTLSConfig: s}
		do = map[string]interface{}{mangos.OptionTLSConfig: c}
	}
	l, err := srv.NewListener(ListenAddr(tr), lo)
	if err != nil {
		return nil, fmt.Errorf("NewListener: %w", err)
	}
	if err := l.Listen(); err != nil {
		return nil, fmt.Errorf("Listen: %w", err)
	}
	u, stop, err := ChopRelay(l.Address(), seed)
	if err != nil {
		return nil, err
	}
	d, err := cli.NewDialer(u, do)
	if err != nil {
		stop()
		return nil, fmt.Errorf("NewDialer(%s): %w", u, err)
	}
	if err := d.Dial(); err != nil {
		stop()
		return nil, fmt.Errorf("Dial(%s): %w", u, err)
	}
	return stop, nil
}
