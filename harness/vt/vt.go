// Package vt is a virtual mangos transport (scheme "vt://") registered through
// the public transport API.  The harness holds the far end of every pipe, so it
// observes and injects at transport-message level and places faults exactly.
// Everything above the transport — core socket, pipe bookkeeping, protocols —
// is the real library code.
package vt

import (
	"errors"
	"strings"
	"sync"
	"time"

	"go.nanomsg.org/mangos/v3"
	"go.nanomsg.org/mangos/v3/transport"

	"verifharness/mon"
)

const scheme = "vt"

type tran struct{}

func (tran) Scheme() string { return scheme }

var (
	regMu     sync.Mutex
	listeners = map[string]*ListenerCtl{}
	dialers   = map[string]*DialerCtl{}
)

func init() { transport.RegisterTransport(tran{}) }

// Process-wide activity counter: bumped on every library Send and every pipe
// close, so harness goroutines can block (not poll) while waiting for traffic —
// a polling goroutine would defeat the stuck detector's quiescence test.
var (
	actMu  sync.Mutex
	actCv  = sync.NewCond(&actMu)
	actVer uint64
)

func bump() {
	actMu.Lock()
	actVer++
	actCv.Broadcast()
	actMu.Unlock()
}

// Kick wakes every WaitActivity caller (use it when asking helper goroutines to stop).
func Kick() { bump() }

// Activity returns the current activity version.
func Activity() uint64 { actMu.Lock(); defer actMu.Unlock(); return actVer }

// WaitActivity blocks until the activity version exceeds since and returns it.
func WaitActivity(since uint64) uint64 {
	actMu.Lock()
	defer actMu.Unlock()
	for actVer <= since {
		actCv.Wait()
	}
	return actVer
}

func name(addr string) string { return strings.TrimPrefix(addr, scheme+"://") }

// Addr returns the address for endpoint name n.
func Addr(n string) string { return scheme + "://" + n }

// L returns (creating if needed) the control handle of listener endpoint n.
func L(n string) *ListenerCtl {
	regMu.Lock()
	defer regMu.Unlock()
	l := listeners[n]
	if l == nil {
		l = &ListenerCtl{Name: n, acceptQ: make(chan acceptItem, 1024), closeQ: make(chan struct{}), maxrx: -1}
		listeners[n] = l
	}
	return l
}

// D returns (creating if needed) the control handle of dialer endpoint n.
func D(n string) *DialerCtl {
	regMu.Lock()
	defer regMu.Unlock()
	d := dialers[n]
	if d == nil {
		d = &DialerCtl{Name: n, Default: Outcome{Kind: Refuse}, maxrx: -1}
		d.cv = sync.NewCond(&d.mu)
		dialers[n] = d
	}
	return d
}

// Forget drops endpoint names from the registry (cases use unique names; this bounds memory).
func Forget(names ...string) {
	regMu.Lock()
	for _, n := range names {
		delete(listeners, n)
		delete(dialers, n)
	}
	regMu.Unlock()
}

func (tran) NewDialer(addr string, sock mangos.Socket) (transport.Dialer, error) {
	if !strings.HasPrefix(addr, scheme+"://") {
		return nil, mangos.ErrBadTran
	}
	d := D(name(addr))
	d.mu.Lock()
	d.proto = sock.Info()
	nd := d.NewDelay
	d.mu.Unlock()
	if nd > 0 {
		time.Sleep(nd) // a slow transport constructor (widens races between NewDialer and Close)
	}
	return &tdialer{ctl: d}, nil
}

func (tran) NewListener(addr string, sock mangos.Socket) (transport.Listener, error) {
	if !strings.HasPrefix(addr, scheme+"://") {
		return nil, mangos.ErrBadTran
	}
	l := L(name(addr))
	l.mu.Lock()
	l.proto = sock.Info()
	d := l.NewDelay
	l.created++
	l.mu.Unlock()
	if d > 0 {
		time.Sleep(d) // a slow transport constructor (widens races between NewListener and Close)
	}
	return &tlistener{ctl: l, addr: addr}, nil
}

// ---------------------------------------------------------------------------
// Pipe

// Sent is one message the library handed to the transport.
type Sent struct {
	Seq    int
	Header []byte
	Body   []byte
	T      time.Duration // monotonic, taken when Send was entered
	Pipe   *Pipe
}

// Wire returns header followed by body (what a stream transport would frame).
func (s Sent) Wire() []byte { return append(append([]byte{}, s.Header...), s.Body...) }

// Pipe is the harness-held far end plus the mangos.TranPipe the library uses.
type Pipe struct {
	Name string // endpoint name
	N    int    // ordinal among the endpoint's pipes

	mu       sync.Mutex
	cv       *sync.Cond
	rq       [][]byte // injected, not yet received
	rqHdr    [][]byte
	recvd    int // number of messages the library has taken
	sent     []Sent
	closed   bool // either side
	libClose time.Duration
	dropped  time.Duration
	hold     bool
	lateOK   bool // a held Send completes successfully although the pipe was dropped meanwhile
	lateHold bool // ... but not before ReleaseLate
	recvWait int  // library goroutines parked in Recv
	sendWait int
	opts     map[string]interface{}
	maxrx    int
}

func newPipe(name string, n int, maxrx int) *Pipe {
	p := &Pipe{Name: name, N: n, opts: map[string]interface{}{}, maxrx: maxrx}
	p.cv = sync.NewCond(&p.mu)
	return p
}

var errVTClosed = errors.New("vt: pipe closed")

// --- mangos.TranPipe ---

func (p *Pipe) Send(m *mangos.Message) error {
	t := mon.Now()
	p.mu.Lock()
	defer p.mu.Unlock()
	p.sendWait++
	held := false
	for (p.hold && !p.closed) || (p.lateOK && held && p.lateHold) {
		held = true
		p.cv.Wait()
	}
	p.sendWait--
	if p.closed && !(p.lateOK && held) {
		if p.dropped != 0 && p.libClose == 0 {
			return errVTClosed // the peer went away: stream transports report a plain I/O error, not ErrClosed
		}
		return mangos.ErrClosed
	}
	s := Sent{Seq: len(p.sent), T: t, Pipe: p,
		Header: append([]byte{}, m.Header...), Body: append([]byte{}, m.Body...)}
	p.sent = append(p.sent, s)
	p.cv.Broadcast()
	m.Free()
	bump()
	return nil
}

func (p *Pipe) Recv() (*mangos.Message, error) {
	p.mu.Lock()
	defer p.mu.Unlock()
	p.recvWait++
	for len(p.rq) == 0 && !p.closed {
		p.cv.Wait()
	}
	p.recvWait--
	if p.closed {
		if p.dropped != 0 && p.libClose == 0 {
			return nil, errVTClosed
		}
		return nil, mangos.ErrClosed
	}
	b := p.rq[0]
	h := p.rqHdr[0]
	p.rq = p.rq[1:]
	p.rqHdr = p.rqHdr[1:]
	p.recvd++
	p.cv.Broadcast()
	m := mangos.NewMessage(len(b))
	m.Body = append(m.Body, b...)
	if h != nil {
		m.Header = append(m.Header, h...)
	}
	return m, nil
}

func (p *Pipe) Close() error {
	p.mu.Lock()
	if !p.closed {
		p.closed = true
		p.libClose = mon.Now()
	} else if p.libClose == 0 {
		p.libClose = mon.Now()
	}
	p.cv.Broadcast()
	p.mu.Unlock()
	bump()
	return nil
}

func (p *Pipe) GetOption(n string) (interface{}, error) {
	p.mu.Lock()
	defer p.mu.Unlock()
	if n == mangos.OptionMaxRecvSize && p.maxrx >= 0 {
		return p.maxrx, nil
	}
	if v, ok := p.opts[n]; ok {
		return v, nil
	}
	return nil, mangos.ErrBadOption
}

// --- harness side ---

// Inject queues body bytes; the library's next Recv gets a fresh message whose
// Body is exactly these bytes (header empty), as stream transports deliver.
func (p *Pipe) Inject(b []byte) {
	p.mu.Lock()
	p.rq = append(p.rq, append([]byte{}, b...))
	p.rqHdr = append(p.rqHdr, nil)
	p.cv.Broadcast()
	p.mu.Unlock()
}

// InjectHB queues a message with separate header and body (as inproc delivers).
func (p *Pipe) InjectHB(h, b []byte) {
	p.mu.Lock()
	p.rq = append(p.rq, append([]byte{}, b...))
	p.rqHdr = append(p.rqHdr, append([]byte{}, h...))
	p.cv.Broadcast()
	p.mu.Unlock()
}

// Pending returns how many injected messages the library has not taken yet.
func (p *Pipe) Pending() int { p.mu.Lock(); defer p.mu.Unlock(); return len(p.rq) }

// Taken returns how many injected messages the library has taken.
func (p *Pipe) Taken() int { p.mu.Lock(); defer p.mu.Unlock(); return p.recvd }

// SentCount returns the number of messages sent so far.
func (p *Pipe) SentCount() int { p.mu.Lock(); defer p.mu.Unlock(); return len(p.sent) }

// SentLog returns a copy of the send log.
func (p *Pipe) SentLog() []Sent {
	p.mu.Lock()
	defer p.mu.Unlock()
	return append([]Sent{}, p.sent...)
}

// SentFrom returns log entries with Seq >= from.
func (p *Pipe) SentFrom(from int) []Sent {
	p.mu.Lock()
	defer p.mu.Unlock()
	if from >= len(p.sent) {
		return nil
	}
	return append([]Sent{}, p.sent[from:]...)
}

// Drop closes the pipe from the peer side: pending and future Recv/Send fail.
// Returns the monotonic time taken *before* the close took effect.
func (p *Pipe) Drop() time.Duration {
	t := mon.Now()
	p.mu.Lock()
	if !p.closed {
		p.closed = true
		p.dropped = t
	}
	p.cv.Broadcast()
	p.mu.Unlock()
	return t
}

// DropLateSendOK closes the pipe from the peer side like Drop, but a Send that is held at that moment
// completes successfully once the library has noticed the loss: the bytes had already left when the
// connection went (a write that is reported successful although the pipe is gone by then).
func (p *Pipe) DropLateSendOK() time.Duration {
	p.mu.Lock()
	p.lateOK, p.lateHold = true, true
	p.mu.Unlock()
	return p.Drop()
}

// ReleaseLate lets the Send held across DropLateSendOK return (successfully).
func (p *Pipe) ReleaseLate() { p.mu.Lock(); p.lateHold = false; p.cv.Broadcast(); p.mu.Unlock() }

// HoldSends makes Send block (slow or silent peer) until ReleaseSends.
func (p *Pipe) HoldSends()    { p.mu.Lock(); p.hold = true; p.mu.Unlock() }
func (p *Pipe) ReleaseSends() { p.mu.Lock(); p.hold = false; p.cv.Broadcast(); p.mu.Unlock() }

// Closed reports whether the pipe is closed and whether the library closed it (and when).
func (p *Pipe) Closed() (closed bool, byLib bool, at time.Duration) {
	p.mu.Lock()
	defer p.mu.Unlock()
	return p.closed, p.libClose != 0, p.libClose
}

// LibClosed reports whether the library has called Close on the transport pipe.
func (p *Pipe) LibClosed() bool { p.mu.Lock(); defer p.mu.Unlock(); return p.libClose != 0 }

// Waiters reports library goroutines parked in Recv and Send.
func (p *Pipe) Waiters() (recv, send int) {
	p.mu.Lock()
	defer p.mu.Unlock()
	return p.recvWait, p.sendWait
}

// SetOpt sets a read-only pipe option value visible through GetOption.
func (p *Pipe) SetOpt(n string, v interface{}) { p.mu.Lock(); p.opts[n] = v; p.mu.Unlock() }

// ---------------------------------------------------------------------------
// Listener

type acceptItem struct {
	p   *Pipe
	err error
}

// ListenerCtl is the harness handle of a vt listener endpoint.
type ListenerCtl struct {
	Name      string
	mu        sync.Mutex
	proto     mangos.ProtocolInfo
	acceptQ   chan acceptItem
	closeQ    chan struct{}
	listening bool
	closed    bool
	pipes     []*Pipe
	ListenErr error         // returned by the next Listen calls while non-nil
	NewDelay  time.Duration // how long the transport's NewListener takes
	created   int
	maxrx     int
	accepts   int
	optLog    []string
}

// Connect makes a new pipe appear at Accept and returns its harness end.
func (l *ListenerCtl) Connect() *Pipe {
	l.mu.Lock()
	p := newPipe(l.Name, len(l.pipes), l.maxrx)
	l.pipes = append(l.pipes, p)
	l.mu.Unlock()
	l.acceptQ <- acceptItem{p: p}
	return p
}

// FailAccept makes the next Accept return err.
func (l *ListenerCtl) FailAccept(err error) { l.acceptQ <- acceptItem{err: err} }

// Pipes returns the pipes created so far.
func (l *ListenerCtl) Pipes() []*Pipe {
	l.mu.Lock()
	defer l.mu.Unlock()
	return append([]*Pipe{}, l.pipes...)
}

// State reports listening/closed and the number of completed Accept calls.
func (l *ListenerCtl) State() (listening, closed bool, accepts int) {
	l.mu.Lock()
	defer l.mu.Unlock()
	return l.listening, l.closed, l.accepts
}

// Proto returns the protocol info of the socket that created the endpoint.
func (l *ListenerCtl) Proto() mangos.ProtocolInfo { l.mu.Lock(); defer l.mu.Unlock(); return l.proto }

// SetNewDelay makes the transport's NewListener for this endpoint take d.
func (l *ListenerCtl) SetNewDelay(d time.Duration) { l.mu.Lock(); l.NewDelay = d; l.mu.Unlock() }

// SetListenErr scripts Listen failures.
func (l *ListenerCtl) SetListenErr(err error) { l.mu.Lock(); l.ListenErr = err; l.mu.Unlock() }

type tlistener struct {
	ctl  *ListenerCtl
	addr string
}

func (t *tlistener) Listen() error {
	l := t.ctl
	l.mu.Lock()
	defer l.mu.Unlock()
	if l.closed {
		return mangos.ErrClosed
	}
	if l.ListenErr != nil {
		return l.ListenErr
	}
	if l.listening {
		return mangos.ErrAddrInUse
	}
	l.listening = true
	return nil
}

func (t *tlistener) Accept() (transport.Pipe, error) {
	l := t.ctl
	l.mu.Lock()
	if !l.listening {
		l.mu.Unlock()
		return nil, mangos.ErrClosed
	}
	l.mu.Unlock()
	select {
	case <-l.closeQ:
		return nil, mangos.ErrClosed
	case it := <-l.acceptQ:
		l.mu.Lock()
		l.accepts++
		l.mu.Unlock()
		if it.err != nil {
			return nil, it.err
		}
		return it.p, nil
	}
}

func (t *tlistener) Close() error {
	l := t.ctl
	l.mu.Lock()
	defer l.mu.Unlock()
	if l.closed {
		return mangos.ErrClosed
	}
	l.closed = true
	close(l.closeQ)
	return nil
}

func (t *tlistener) SetOption(n string, v interface{}) error {
	if n == mangos.OptionMaxRecvSize {
		if i, ok := v.(int); ok {
			t.ctl.mu.Lock()
			t.ctl.maxrx = i
			nd := t.ctl.NewDelay
			t.ctl.mu.Unlock()
			if nd > 0 {
				time.Sleep(nd / 2) // configuring the new transport listener takes time as well
			}
			return nil
		}
		return mangos.ErrBadValue
	}
	return mangos.ErrBadOption
}

func (t *tlistener) GetOption(n string) (interface{}, error) {
	if n == mangos.OptionMaxRecvSize {
		t.ctl.mu.Lock()
		defer t.ctl.mu.Unlock()
		return t.ctl.maxrx, nil
	}
	return nil, mangos.ErrBadOption
}

func (t *tlistener) Address() string { return t.addr }

// ---------------------------------------------------------------------------
// Dialer

// OutcomeKind scripts what a Dial invocation does.
type OutcomeKind int

const (
	Refuse      OutcomeKind = iota // return Err (default ECONNREFUSED-like)
	Succeed                        // return a fresh pipe
	SucceedDrop                    // return a fresh pipe that is already dropped by the peer
	Hang                           // block until Release(outcome)
)

// Outcome is one scripted result.
type Outcome struct {
	Kind OutcomeKind
	Err  error
}

// ErrRefused is the default refusal error.
var ErrRefused = errors.New("vt: connection refused")

// DialRec is one logged Dial invocation.
type DialRec struct {
	Seq    int
	Start  time.Duration
	End    time.Duration // 0 while in flight
	Kind   OutcomeKind
	Pipe   *Pipe
	Hanged bool
}

// DialerCtl is the harness handle of a vt dialer endpoint.
type DialerCtl struct {
	Name    string
	mu      sync.Mutex
	cv      *sync.Cond
	proto   mangos.ProtocolInfo
	script  []Outcome
	Default Outcome
	log     []DialRec
	pipes   []*Pipe
	release []Outcome // outcomes handed to hanging dials
	maxrx   int

	NewDelay time.Duration // how long the transport's NewDialer takes
}

// Script appends scripted outcomes (consumed one per Dial, then Default applies).
func (d *DialerCtl) Script(o ...Outcome) {
	d.mu.Lock()
	d.script = append(d.script, o...)
	d.mu.Unlock()
}

// SetNewDelay makes the transport's NewDialer for this endpoint take d.
func (d *DialerCtl) SetNewDelay(t time.Duration) { d.mu.Lock(); d.NewDelay = t; d.mu.Unlock() }

// SetDefault sets the outcome used when the script is empty.
func (d *DialerCtl) SetDefault(o Outcome) { d.mu.Lock(); d.Default = o; d.mu.Unlock() }

// Release lets one hanging Dial finish with outcome o.
func (d *DialerCtl) Release(o Outcome) {
	d.mu.Lock()
	d.release = append(d.release, o)
	d.cv.Broadcast()
	d.mu.Unlock()
}

// Log returns a copy of the dial log.
func (d *DialerCtl) Log() []DialRec {
	d.mu.Lock()
	defer d.mu.Unlock()
	return append([]DialRec{}, d.log...)
}

// Attempts returns the number of Dial invocations started so far.
func (d *DialerCtl) Attempts() int { d.mu.Lock(); defer d.mu.Unlock(); return len(d.log) }

// Pipes returns pipes created by successful dials.
func (d *DialerCtl) Pipes() []*Pipe {
	d.mu.Lock()
	defer d.mu.Unlock()
	return append([]*Pipe{}, d.pipes...)
}

// LastPipe returns the most recent pipe or nil.
func (d *DialerCtl) LastPipe() *Pipe {
	d.mu.Lock()
	defer d.mu.Unlock()
	if len(d.pipes) == 0 {
		return nil
	}
	return d.pipes[len(d.pipes)-1]
}

// Proto returns the protocol info of the socket that created the endpoint.
func (d *DialerCtl) Proto() mangos.ProtocolInfo { d.mu.Lock(); defer d.mu.Unlock(); return d.proto }

type tdialer struct{ ctl *DialerCtl }

func (t *tdialer) Dial() (transport.Pipe, error) {
	d := t.ctl
	start := mon.Now()
	d.mu.Lock()
	o := d.Default
	if len(d.script) > 0 {
		o = d.script[0]
		d.script = d.script[1:]
	}
	seq := len(d.log)
	d.log = append(d.log, DialRec{Seq: seq, Start: start, Kind: o.Kind})
	if o.Kind == Hang {
		d.log[seq].Hanged = true
		for len(d.release) == 0 {
			d.cv.Wait()
		}
		o = d.release[0]
		d.release = d.release[1:]
		d.log[seq].Kind = o.Kind
	}
	var p *Pipe
	var err error
	switch o.Kind {
	case Refuse:
		err = o.Err
		if err == nil {
			err = ErrRefused
		}
	case Succeed, SucceedDrop:
		p = newPipe(d.Name, len(d.pipes), d.maxrx)
		d.pipes = append(d.pipes, p)
		d.log[seq].Pipe = p
		if o.Kind == SucceedDrop {
			p.closed = true
			p.dropped = mon.Now()
		}
	}
	d.log[seq].End = mon.Now()
	d.cv.Broadcast()
	d.mu.Unlock()
	if err != nil {
		return nil, err
	}
	return p, nil
}

func (t *tdialer) SetOption(n string, v interface{}) error {
	if n == mangos.OptionMaxRecvSize {
		if i, ok := v.(int); ok {
			t.ctl.mu.Lock()
			t.ctl.maxrx = i
			nd := t.ctl.NewDelay
			t.ctl.mu.Unlock()
			if nd > 0 {
				time.Sleep(nd) // configuring the new transport dialer is slow too (the socket hands it its receive limit)
			}
			return nil
		}
		return mangos.ErrBadValue
	}
	return mangos.ErrBadOption
}

func (t *tdialer) GetOption(n string) (interface{}, error) {
	if n == mangos.OptionMaxRecvSize {
		t.ctl.mu.Lock()
		defer t.ctl.mu.Unlock()
		return t.ctl.maxrx, nil
	}
	return nil, mangos.ErrBadOption
}
