module verifharness

go 1.22

require (
	github.com/anishathalye/porcupine v1.3.0
	github.com/gorilla/websocket v1.5.3
	go.nanomsg.org/mangos/v3 v3.0.0
)

require (
	github.com/Microsoft/go-winio v0.6.2 // indirect
	golang.org/x/sys v0.10.0 // indirect
)

replace go.nanomsg.org/mangos/v3 => /repo
